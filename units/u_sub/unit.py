# U-sub: the closure layer between the Thompson NFA and the subset construction (C02): epsilon closure, state lookup,
# match transitions of a state set. Contracts are stated on a graph view of the real Nfa value (sub_spec.rs).
from extract import *

F_NFA = 'scnr/src/internal/nfa.rs'
F_IDS = 'scnr/src/internal/ids.rs'
ID_SPECS = {'new': 'ensures r.0 == index', 'as_usize': 'ensures r == self.0', 'id': 'ensures r == self.0'}
P = ['C02']

def any_loop(vec, var, pred, tail=True):
    """E11: `VEC.iter().any(|VAR| BODY)` as the short-circuiting loop; pred(E) is the spec reading of BODY for element E"""
    return '''{
let mut __any = false;
let mut __it0 = %(vec)s.iter();
let ghost rem = __it0.remaining();
proof {
    assert(rem.len() == %(vec)s@.len());
    assert(forall|i: int| 0 <= i < rem.len() ==> *#[trigger] rem[i] == %(vec)s@[i]);
}
loop
    invariant_except_break
        __it0.obeys_prophetic_iter_laws(), __it0.decrease() is Some, !__any,
        rem.len() == %(vec)s@.len(), forall|i: int| 0 <= i < rem.len() ==> *#[trigger] rem[i] == %(vec)s@[i],
        __it0.remaining().len() <= rem.len(),
        forall|q: int| 0 <= q < __it0.remaining().len() ==> #[trigger] __it0.remaining()[q] == rem[rem.len() - __it0.remaining().len() + q],
        forall|j: int| 0 <= j < rem.len() - __it0.remaining().len() ==> !(%(predj)s),
    ensures
        __any == exists|i: int| 0 <= i < %(vec)s@.len() && (%(predi)s),
    decreases __it0.decrease()->0
{
    let ghost pos = rem.len() - __it0.remaining().len();
    let Some(%(var)s) = __it0.next() else { break };
    proof { assert(*%(var)s == %(vec)s@[pos]); }
    if $body { __any = true; break; }
}
__any
}''' % dict(vec=vec, var=var, predj=pred('(#[trigger] %s@[j])' % vec), predi=pred('(#[trigger] %s@[i])' % vec))

ANY_WHY = 'iter().any(|x| p(x)) is the short-circuiting loop (std definition); the predicate body is kept verbatim'

def find_loop(vec, var, ty, pred, then='__found'):
    """E11: `VEC.iter().find(|VAR| BODY)` as the loop returning the first element BODY holds for"""
    return '''{
let mut __found: Option<&%(ty)s> = None;
let mut __it0 = %(vec)s.iter();
let ghost rem = __it0.remaining();
proof {
    assert(rem.len() == %(vec)s@.len());
    assert(forall|i: int| 0 <= i < rem.len() ==> *#[trigger] rem[i] == %(vec)s@[i]);
}
loop
    invariant_except_break
        __it0.obeys_prophetic_iter_laws(), __it0.decrease() is Some, __found is None,
        rem.len() == %(vec)s@.len(), forall|i: int| 0 <= i < rem.len() ==> *#[trigger] rem[i] == %(vec)s@[i],
        __it0.remaining().len() <= rem.len(),
        forall|q: int| 0 <= q < __it0.remaining().len() ==> #[trigger] __it0.remaining()[q] == rem[rem.len() - __it0.remaining().len() + q],
        forall|j: int| 0 <= j < rem.len() - __it0.remaining().len() ==> !(%(predj)s),
    ensures
        match __found {
            Some(s) => exists|i: int| 0 <= i < %(vec)s@.len() && *s == #[trigger] %(vec)s@[i] && (%(preds)s)
                && forall|j: int| 0 <= j < i ==> !(%(predj)s),
            None => forall|j: int| 0 <= j < %(vec)s@.len() ==> !(%(predj)s),
        },
    decreases __it0.decrease()->0
{
    let ghost pos = rem.len() - __it0.remaining().len();
    let Some(__x) = __it0.next() else { break };
    proof { assert(*__x == %(vec)s@[pos]); }
    let %(var)s = &__x;
    if $body { __found = Some(__x); break; }
}
%(then)s
}''' % dict(vec=vec, var=var, ty=ty, predj=pred('(#[trigger] %s@[j])' % vec), preds=pred('(*s)'), then=then)

FIND_WHY = 'iter().find(|x| p(x)) is the short-circuiting loop returning the first element p holds for (std definition); the predicate body is kept verbatim, `x` bound as `&item` as in the closure'


st_id = Fn(F_NFA, 'NfaState', 'id', ret='r', spec='ensures r == self.state', props=P)
st_trans = Fn(F_NFA, 'NfaState', 'transitions', ret='r', spec='ensures r@ == self.transitions@', props=P)
st_eps = Fn(F_NFA, 'NfaState', 'epsilon_transitions', ret='r', spec='ensures r@ == self.epsilon_transitions@', props=P)
tr_target = Fn(F_NFA, 'NfaTransition', 'target_state', ret='r', spec='ensures r == self.target_state', props=P)
tr_cc = Fn(F_NFA, 'NfaTransition', 'char_class', ret='r', spec='ensures r == self.char_class', props=P)
eps_target = Fn(F_NFA, 'EpsilonTransition', 'target_state', ret='r', spec='ensures r == self.target_state', props=P)
nfa_states = Fn(F_NFA, 'Nfa', 'states', ret='r', spec='ensures r@ == self.states@', props=P)
nfa_start = Fn(F_NFA, 'Nfa', 'start_state', ret='r', spec='ensures r == self.start_state', props=P)

find_state = Fn(F_NFA, 'Nfa', 'find_state', ret='r', props=P,
    spec='''
ensures
    // the first state carrying that id, if any
    match r {
        Some(s) => exists|i: int| 0 <= i < self.states@.len() && *s == #[trigger] self.states@[i] && s.state == state
            && forall|j: int| 0 <= j < i ==> (#[trigger] self.states@[j]).state != state,
        None => forall|j: int| 0 <= j < self.states@.len() ==> (#[trigger] self.states@[j]).state != state,
    }
''',
    edits=[Replace('E11', 'self.states.iter().find(|s| $body)', find_loop('self.states', 's', 'NfaState', lambda e: '%s.state == state' % e), why=FIND_WHY)])

contains_state = Fn(F_NFA, 'Nfa', 'contains_state', ret='r', props=P,
    spec='ensures r == exists|i: int| 0 <= i < self.states@.len() && (#[trigger] self.states@[i]).state == state',
    edits=[Replace('E11', 'self.states.iter().any(|s| $body)', any_loop('self.states', 's', lambda e: '%s.state == state' % e), why=ANY_WHY)])

epsilon_closure = Fn(F_NFA, 'Nfa', 'epsilon_closure', ret='r', props=P, attrs='#[verifier::loop_isolation(false)] #[verifier::allow_complex_invariants]',
    spec='''
requires sub_wf(*self), has_state(*self, state.0 as int)
ensures
    // exactly the states reachable over epsilon edges (reflexive, transitive), ascending, no duplicates
    forall|x: StateID| #[trigger] r@.contains(x) <==> eps_reach(*self, state.0 as int, x.0 as int),
    strictly_sorted(r@),
''',
    edits=[
        Ins('body_start', None, '''
let ghost n = *self;
let ghost a = state.0 as int;
let ghost state0 = state;
'''),
        Ins('after_stmt', 'let mut closure = $_;', '''
proof {
    assert(closure@ =~= seq![state0]);
    lemma_reach_refl(n, a);
}
'''),
        LoopSpec('while $_ {', '''
invariant
    n == *self, sub_wf(n), a == state0.0, has_state(n, a),
    closure@.len() >= 1, closure@[0] == state0, 0 <= i <= closure@.len(), closure@.len() <= n_len(n),
    closure@.no_duplicates(),
    forall|j: int| 0 <= j < closure@.len() ==> has_state(n, (#[trigger] closure@[j]).0 as int) && eps_reach(n, a, closure@[j].0 as int),
    forall|j: int, k: int| 0 <= j < i && 0 <= k < st(n, closure@[j].0 as int).epsilon_transitions@.len()
        ==> closure@.contains((#[trigger] st(n, closure@[j].0 as int).epsilon_transitions@[k]).target_state),
decreases n_len(n) - closure@.len(), closure@.len() - i
''', label='epsilon_closure.worklist'),
        Ins('after_stmt', 'let current_state = $_;', '''
let ghost cur = current_state.0 as int;
let ghost c_in = closure@;
proof { assert(has_state(n, c_in[i as int].0 as int)); }
'''),
        Ins('after', 'if let Some(state) = self.find_state(current_state) {', '''
proof {
    let idx = choose|idx: int| 0 <= idx < n.states@.len() && *state == #[trigger] n.states@[idx] && state.state == current_state;
    assert(n.states@[idx].state.0 == n_off(n) + idx);
    assert(*state == st(n, cur));
}
let ghost eps = st(n, cur).epsilon_transitions@;
'''),
        ForLoop('for epsilon_transition in state.epsilon_transitions() {', it='__it1', label='epsilon_closure.successors', spec='''
invariant
    __it1.obeys_prophetic_iter_laws(), __it1.decrease() is Some,
    eps == st(n, cur).epsilon_transitions@, has_state(n, cur), cur == closure@[i as int].0, i < closure@.len(),
    __it1.remaining().len() <= eps.len(),
    forall|q: int| 0 <= q < __it1.remaining().len() ==> *#[trigger] __it1.remaining()[q] == eps[eps.len() - __it1.remaining().len() + q],
    closure@.len() >= c_in.len(), forall|j: int| 0 <= j < c_in.len() ==> closure@[j] == c_in[j],
    closure@.len() <= n_len(n),
    closure@.no_duplicates(),
    forall|j: int| 0 <= j < closure@.len() ==> has_state(n, (#[trigger] closure@[j]).0 as int) && eps_reach(n, a, closure@[j].0 as int),
    forall|k: int| 0 <= k < eps.len() - __it1.remaining().len() ==> closure@.contains((#[trigger] eps[k]).target_state),
ensures
    __it1.remaining().len() == 0,
decreases __it1.decrease()->0
'''),
        Ins('after', 'for epsilon_transition in state.epsilon_transitions() {', '''
let ghost m = eps.len() - __it1.remaining().len() - 1;
let ghost c_before = closure@;
proof {
    assert(*epsilon_transition == eps[m]);
    assert(eps_edge(n, cur, eps[m].target_state.0 as int));
    lemma_reach_step(n, a, cur, eps[m].target_state.0 as int);
    assert(has_state(n, n.states@[cur - n_off(n)].epsilon_transitions@[m].target_state.0 as int));
}
'''),
        Ins('after_stmt', 'closure.push(epsilon_transition.target_state());', '''
proof {
    assert(closure@ == c_before.push(eps[m].target_state));
    assert(closure@.no_duplicates()) by {
        assert forall|p: int, q: int| 0 <= p < closure@.len() && 0 <= q < closure@.len() && p != q implies closure@[p] != closure@[q] by {
            if p < c_before.len() && q < c_before.len() { assert(c_before[p] != c_before[q]); }
            else if p < c_before.len() { assert(c_before.contains(c_before[p])); }
            else if q < c_before.len() { assert(c_before.contains(c_before[q])); }
        }
    }
    lemma_nodup_bounded(closure@, n_off(n), n_len(n));
}
'''),
        Ins('block_end', 'for epsilon_transition in state.epsilon_transitions() {', '''
proof {
    assert forall|k: int| 0 <= k <= m implies closure@.contains((#[trigger] eps[k]).target_state) by {
        if k < m {
            assert(c_before.contains(eps[k].target_state));
            let w = choose|w: int| 0 <= w < c_before.len() && c_before[w] == eps[k].target_state;
            assert(closure@[w] == eps[k].target_state);
        } else {
            if c_before.contains(eps[m].target_state) {
                let w = choose|w: int| 0 <= w < c_before.len() && c_before[w] == eps[m].target_state;
                assert(closure@[w] == eps[m].target_state);
            } else {
                assert(closure@[closure@.len() - 1] == eps[m].target_state);
            }
        }
    }
}
'''),
        Ins('before', 'i += 1;', '''
proof {
    assert forall|j: int, k: int| 0 <= j < i + 1 && 0 <= k < st(n, closure@[j].0 as int).epsilon_transitions@.len()
        implies closure@.contains((#[trigger] st(n, closure@[j].0 as int).epsilon_transitions@[k]).target_state) by {
        assert(closure@[j] == c_in[j]);
        if j < i {
            assert(c_in.contains(st(n, c_in[j].0 as int).epsilon_transitions@[k].target_state));
            let w = choose|w: int| 0 <= w < c_in.len() && c_in[w] == st(n, c_in[j].0 as int).epsilon_transitions@[k].target_state;
            assert(closure@[w] == c_in[w]);
        } else {
            assert(closure@.contains(eps[k].target_state));
        }
    }
}
'''),
        Ins('before', 'closure.sort_unstable();', '''
let ghost cl = closure@;
proof {
    let s = ISet::new(|x: int| exists|j: int| 0 <= j < cl.len() && (#[trigger] cl[j]).0 == x);
    assert(s.contains(a)) by { assert(cl[0].0 == a); }
    assert forall|x: int, y: int| s.contains(x) && #[trigger] eps_edge(n, x, y) implies s.contains(y) by {
        let j = choose|j: int| 0 <= j < cl.len() && (#[trigger] cl[j]).0 == x;
        let k = choose|k: int| 0 <= k < st(n, x).epsilon_transitions@.len() && (#[trigger] st(n, x).epsilon_transitions@[k]).target_state.0 == y;
        assert(cl.contains(st(n, cl[j].0 as int).epsilon_transitions@[k].target_state));
        let w = choose|w: int| 0 <= w < cl.len() && cl[w] == st(n, cl[j].0 as int).epsilon_transitions@[k].target_state;
        assert(cl[w].0 == y);
    }
    assert forall|x: StateID| #[trigger] cl.contains(x) <==> eps_reach(n, a, x.0 as int) by {
        if cl.contains(x) {
            let j = choose|j: int| 0 <= j < cl.len() && cl[j] == x;
            assert(eps_reach(n, a, cl[j].0 as int));
        }
        if eps_reach(n, a, x.0 as int) {
            let k = choose|k: nat| eps_path(n, a, x.0 as int, k);
            lemma_closed_contains_reach(n, a, s, x.0 as int, k);
            let j = choose|j: int| 0 <= j < cl.len() && (#[trigger] cl[j]).0 == x.0 as int;
            assert(cl[j] == x);
        }
    }
}
'''),
        Ins('after_stmt', 'closure.sort_unstable();', '''
let ghost sorted = closure@;
proof {
    broadcast use axiom_key_stateid;
    assert(has_ord_key::<StateID>()) by { axiom_key_stateid(state0); }
    assert(key_sorted(sorted));
}
'''),
        Tail('''
proof {
    broadcast use axiom_key_stateid;
    assert(key_injective::<StateID>()) by {
        assert forall|x: StateID, y: StateID| #![trigger ord_key(x), ord_key(y)] ord_key(x) == ord_key(y) implies x == y by { axiom_key_stateid(x); axiom_key_stateid(y); }
    }
    lemma_dedup_sorted(sorted);
    assert(__res@ == dedup_adj(sorted));
    assert forall|i: int, j: int| 0 <= i < j < __res@.len() implies (#[trigger] __res@[i]).0 < (#[trigger] __res@[j]).0 by {
        axiom_key_stateid(__res@[i]); axiom_key_stateid(__res@[j]);
    }
    assert forall|x: StateID| #[trigger] __res@.contains(x) <==> eps_reach(n, a, x.0 as int) by {
        assert(__res@.contains(x) <==> sorted.contains(x));
        assert(sorted.contains(x) <==> cl.contains(x));
    }
}
'''),
    ])

get_match_transitions = Fn(F_NFA, 'Nfa', 'get_match_transitions', ret='r', props=P, attrs='#[verifier::loop_isolation(false)] #[verifier::allow_complex_invariants]',
    spec='''
requires
    start_states.obeys_prophetic_iter_laws(), start_states.decrease() is Some,
    // the function indexes the state vector by id: every id handed in must be an index (ids_ok automata, i.e. before any shift_ids)
    forall|i: int| 0 <= i < start_states.remaining().len() ==> (#[trigger] start_states.remaining()[i]).0 < self.states@.len(),
ensures
    // exactly the (class, target) pairs leaving one of the given states; ascending, no duplicates
    forall|cc: CharClassID, t: StateID| #[trigger] r@.contains((cc, t)) <==> mt_from(*self, start_states.remaining(), cc, t),
    key_strict(r@),
''',
    edits=[
        Ins('body_start', None, '''
let ghost n = *self;
let ghost ss = start_states.remaining();
'''),
        ForLoop('for state in start_states {', it='__it1', into_iter=False, label='get_match_transitions.states', spec='''
invariant
    __it1.obeys_prophetic_iter_laws(), __it1.decrease() is Some,
    __it1.remaining().len() <= ss.len(),
    forall|q: int| 0 <= q < __it1.remaining().len() ==> #[trigger] __it1.remaining()[q] == ss[ss.len() - __it1.remaining().len() + q],
    forall|cc: CharClassID, t: StateID| #[trigger] target_states@.contains((cc, t)) <==> mt_upto(n, ss, ss.len() - __it1.remaining().len(), 0, cc, t),
ensures
    __it1.remaining().len() == 0,
    forall|cc: CharClassID, t: StateID| #[trigger] target_states@.contains((cc, t)) <==> mt_upto(n, ss, ss.len() as int, 0, cc, t),
decreases __it1.decrease()->0
'''),
        Ins('after', 'for state in start_states {', '''
let ghost si = ss.len() - __it1.remaining().len() - 1;
proof { assert(state == ss[si]); assert(ss[si].0 < n.states@.len()); }
let ghost trs = n.states@[state.0 as int].transitions@;
'''),
        ForLoop('for transition in self.states()[state].transitions() {', it='__it2', label='get_match_transitions.transitions', spec='''
invariant
    __it2.obeys_prophetic_iter_laws(), __it2.decrease() is Some,
    0 <= si < ss.len(), state == ss[si], trs == n.states@[state.0 as int].transitions@, state.0 < n.states@.len(),
    __it2.remaining().len() <= trs.len(),
    forall|q: int| 0 <= q < __it2.remaining().len() ==> *#[trigger] __it2.remaining()[q] == trs[trs.len() - __it2.remaining().len() + q],
    forall|cc: CharClassID, t: StateID| #[trigger] target_states@.contains((cc, t)) <==> mt_upto(n, ss, si, trs.len() - __it2.remaining().len(), cc, t),
ensures
    __it2.remaining().len() == 0,
    forall|cc: CharClassID, t: StateID| #[trigger] target_states@.contains((cc, t)) <==> mt_upto(n, ss, si, trs.len() as int, cc, t),
decreases __it2.decrease()->0
'''),
        Ins('after', 'for transition in self.states()[state].transitions() {', '''
let ghost ti = trs.len() - __it2.remaining().len() - 1;
let ghost before = target_states@;
proof { assert(*transition == trs[ti]); }
'''),
        Ins('after_stmt', 'target_states.push($_);', '''
proof {
    assert(target_states@ == before.push((trs[ti].char_class, trs[ti].target_state)));
    assert forall|cc: CharClassID, t: StateID| #[trigger] target_states@.contains((cc, t)) <==> mt_upto(n, ss, si, ti + 1, cc, t) by {
        lemma_push_contains_pair(before, (trs[ti].char_class, trs[ti].target_state), (cc, t));
        assert(before.contains((cc, t)) <==> mt_upto(n, ss, si, ti, cc, t));
        if mt_upto(n, ss, si, ti + 1, cc, t) && !mt_upto(n, ss, si, ti, cc, t) {
            let (i, k) = choose|i: int, k: int| mt_at(n, ss, i, k, cc, t) && (i < si || (i == si && k < ti + 1));
            assert(i == si && k == ti);
        }
        if mt_upto(n, ss, si, ti, cc, t) {
            let (i, k) = choose|i: int, k: int| mt_at(n, ss, i, k, cc, t) && (i < si || (i == si && k < ti));
            assert(mt_at(n, ss, i, k, cc, t) && (i < si || (i == si && k < ti + 1)));
        }
        if (cc, t) == (trs[ti].char_class, trs[ti].target_state) { assert(mt_at(n, ss, si, ti, cc, t)); }
    }
}
'''),
        Ins('block_end', 'for state in start_states {', '''
proof {
    assert forall|cc: CharClassID, t: StateID| mt_upto(n, ss, si, trs.len() as int, cc, t) <==> mt_upto(n, ss, si + 1, 0, cc, t) by {
        if mt_upto(n, ss, si, trs.len() as int, cc, t) {
            let (i, k) = choose|i: int, k: int| mt_at(n, ss, i, k, cc, t) && (i < si || (i == si && k < trs.len()));
            assert(mt_at(n, ss, i, k, cc, t) && (i < si + 1 || (i == si + 1 && k < 0)));
        }
        if mt_upto(n, ss, si + 1, 0, cc, t) {
            let (i, k) = choose|i: int, k: int| mt_at(n, ss, i, k, cc, t) && (i < si + 1 || (i == si + 1 && k < 0));
            assert(mt_at(n, ss, i, k, cc, t) && (i < si || (i == si && k < trs.len())));
        }
    }
}
'''),
        Ins('before', 'target_states.sort_unstable();', '''
let ghost ts = target_states@;
proof {
    assert forall|cc: CharClassID, t: StateID| #[trigger] ts.contains((cc, t)) <==> mt_from(n, ss, cc, t) by {
        if mt_upto(n, ss, ss.len() as int, 0, cc, t) {
            let (i, k) = choose|i: int, k: int| mt_at(n, ss, i, k, cc, t) && (i < ss.len() || (i == ss.len() && k < 0));
            assert(mt_at(n, ss, i, k, cc, t));
        }
        if mt_from(n, ss, cc, t) {
            let (i, k) = choose|i: int, k: int| mt_at(n, ss, i, k, cc, t);
            assert(mt_at(n, ss, i, k, cc, t) && (i < ss.len() || (i == ss.len() && k < 0)));
        }
    }
}
'''),
        Ins('after_stmt', 'target_states.sort_unstable();', '''
let ghost sorted = target_states@;
proof {
    assert(has_ord_key::<(CharClassID, StateID)>()) by { axiom_key_pair((CharClassID(0), StateID(0))); }
    assert(key_sorted(sorted));
}
'''),
        Tail('''
proof {
    lemma_pair_key_injective();
    lemma_dedup_sorted(sorted);
    assert(__res@ == dedup_adj(sorted));
    assert forall|cc: CharClassID, t: StateID| #[trigger] __res@.contains((cc, t)) <==> mt_from(n, ss, cc, t) by {
        assert(__res@.contains((cc, t)) <==> sorted.contains((cc, t)));
        assert(sorted.contains((cc, t)) <==> ts.contains((cc, t)));
    }
}
'''),
    ])

F_MP = 'scnr/src/internal/multi_pattern_nfa.rs'
nfa_end = Fn(F_NFA, 'Nfa', 'end_state', ret='r', spec='ensures r == self.end_state', props=P)

mp_is_accepting = Fn(F_MP, 'MultiPatternNfa', 'is_accepting_state', ret='r', props=P,
    spec='ensures r == exists|i: int| 0 <= i < self.nfas@.len() && (#[trigger] self.nfas@[i]).end_state == state',
    edits=[Replace('E11', 'self.nfas.iter().any(|nfa| $body)', any_loop('self.nfas', 'nfa', lambda e: '%s.end_state == state' % e), why=ANY_WHY)])

mp_find_nfa = Fn(F_MP, 'MultiPatternNfa', 'find_nfa', ret='r', props=P,
    spec='''
ensures
    // the first pattern NFA that has a state with that id
    match r {
        Some(s) => exists|i: int| 0 <= i < self.nfas@.len() && *s == #[trigger] self.nfas@[i] && contains_id(*s, state)
            && forall|j: int| 0 <= j < i ==> !contains_id(#[trigger] self.nfas@[j], state),
        None => forall|j: int| 0 <= j < self.nfas@.len() ==> !contains_id(#[trigger] self.nfas@[j], state),
    }
''',
    edits=[Replace('E11', 'self.nfas.iter().find(|nfa| $body)', find_loop('self.nfas', 'nfa', 'Nfa', lambda e: 'contains_id(%s, state)' % e), why=FIND_WHY)])

mp_epsilon_closure = Fn(F_MP, 'MultiPatternNfa', 'epsilon_closure', ret='r', props=P, attrs='#[verifier::loop_isolation(false)] #[verifier::allow_complex_invariants]',
    spec='''
requires mp_wf(*self)
ensures
    forall|x: StateID| #[trigger] r@.contains(x) <==> mp_reach(*self, state.0 as int, x.0 as int),
    strictly_sorted(r@),
''',
    edits=[
        Ins('body_start', None, '''
let ghost m = *self;
let ghost state0 = state;
'''),
        Ins('after_stmt', 'let mut result = $_;', '''
proof { assert(result@ =~= seq![StateID(0)]); }
'''),
        ForLoop('for nfa in &self.nfas {', it='__it1', label='mp_epsilon_closure.nfas', spec='''
invariant
    __it1.obeys_prophetic_iter_laws(), __it1.decrease() is Some, m == *self, mp_wf(m),
    __it1.remaining().len() <= mp_len(m),
    forall|q: int| 0 <= q < __it1.remaining().len() ==> *#[trigger] __it1.remaining()[q] == m.nfas@[mp_len(m) - __it1.remaining().len() + q],
    result@.no_duplicates(),
    forall|x: StateID| #[trigger] result@.contains(x) <==> (x.0 == 0 || mp_start_reach(m, mp_len(m) - __it1.remaining().len(), x.0 as int)),
ensures
    __it1.remaining().len() == 0,
decreases __it1.decrease()->0
'''),
        Ins('after', 'for nfa in &self.nfas {', '''
let ghost j = mp_len(m) - __it1.remaining().len() - 1;
let ghost res_in = result@;
proof { assert(*nfa == m.nfas@[j]); assert(sub_wf(m.nfas@[j])); }
'''),
        Ins('after_stmt', 'let epsilon_closure = $_;', '''
let ghost ec = epsilon_closure@;
'''),
        ForLoop('for state in epsilon_closure {', it='__it2', label='mp_epsilon_closure.merge', spec='''
invariant
    __it2.obeys_prophetic_iter_laws(), __it2.decrease() is Some,
    0 <= j < mp_len(m), *nfa == m.nfas@[j],
    __it2.remaining().len() <= ec.len(),
    forall|q: int| 0 <= q < __it2.remaining().len() ==> #[trigger] __it2.remaining()[q] == ec[ec.len() - __it2.remaining().len() + q],
    forall|x: StateID| #[trigger] ec.contains(x) <==> eps_reach(m.nfas@[j], m.nfas@[j].start_state.0 as int, x.0 as int),
    result@.no_duplicates(),
    forall|x: StateID| #[trigger] result@.contains(x) <==> (res_in.contains(x) || exists|p: int| 0 <= p < ec.len() - __it2.remaining().len() && #[trigger] ec[p] == x),
ensures
    __it2.remaining().len() == 0,
decreases __it2.decrease()->0
'''),
        Ins('after', 'for state in epsilon_closure {', '''
let ghost q0 = ec.len() - __it2.remaining().len() - 1;
let ghost before = result@;
proof { assert(state == ec[q0]); }
'''),
        Ins('after_stmt', 'result.push(state);', '''
proof {
    assert(result@ == before.push(state));
    assert(result@.no_duplicates()) by {
        assert forall|p: int, q: int| 0 <= p < result@.len() && 0 <= q < result@.len() && p != q implies result@[p] != result@[q] by {
            if p < before.len() && q < before.len() { assert(before[p] != before[q]); }
            else if p < before.len() { assert(before.contains(before[p])); }
            else if q < before.len() { assert(before.contains(before[q])); }
        }
    }
}
'''),
        Ins('block_end', 'for state in epsilon_closure {', '''
proof {
    assert forall|x: StateID| #[trigger] result@.contains(x) <==> (res_in.contains(x) || exists|p: int| 0 <= p < q0 + 1 && #[trigger] ec[p] == x) by {
        if result@ != before { lemma_push_contains_pair(before, state, x); }
        assert(before.contains(x) <==> (res_in.contains(x) || exists|p: int| 0 <= p < q0 && #[trigger] ec[p] == x));
        if x == state { assert(ec[q0] == x); }
        if exists|p: int| 0 <= p < q0 + 1 && #[trigger] ec[p] == x {
            let p = choose|p: int| 0 <= p < q0 + 1 && #[trigger] ec[p] == x;
            if p == q0 { assert(x == state); }
        }
    }
}
'''),
        Ins('block_end', 'for nfa in &self.nfas {', '''
proof {
    assert forall|x: StateID| #[trigger] result@.contains(x) <==> (x.0 == 0 || mp_start_reach(m, j + 1, x.0 as int)) by {
        assert(res_in.contains(x) <==> (x.0 == 0 || mp_start_reach(m, j, x.0 as int)));
        if exists|p: int| 0 <= p < ec.len() && #[trigger] ec[p] == x {
            let p = choose|p: int| 0 <= p < ec.len() && #[trigger] ec[p] == x;
            assert(ec.contains(x));
            assert(eps_reach(m.nfas@[j], m.nfas@[j].start_state.0 as int, x.0 as int));
        }
        if mp_start_reach(m, j, x.0 as int) {
            let jj = choose|jj: int| 0 <= jj < j && jj < mp_len(m) && eps_reach(#[trigger] m.nfas@[jj], m.nfas@[jj].start_state.0 as int, x.0 as int);
            assert(0 <= jj < j + 1);
        }
        if mp_start_reach(m, j + 1, x.0 as int) {
            let jj = choose|jj: int| 0 <= jj < j + 1 && jj < mp_len(m) && eps_reach(#[trigger] m.nfas@[jj], m.nfas@[jj].start_state.0 as int, x.0 as int);
            if jj == j { assert(ec.contains(x)); let p = choose|p: int| 0 <= p < ec.len() && ec[p] == x; }
        }
    }
}
'''),
        Ins('after_stmt', 'result.sort_unstable();', '''
proof {
    lemma_stateid_key_injective();
    lemma_sorted_nodup_strict(result@);
    lemma_strict_ids(result@);
}
'''),
        Replace('E11+E14', 'self.nfas.iter().find(|nfa| $body).map(|f| $e).unwrap_or_default()',
                find_loop('self.nfas', 'nfa', 'Nfa', lambda e: 'contains_id(%s, state)' % e, then='''
proof {
    assert forall|j: int| 0 <= j < mp_len(m) implies (contains_id(#[trigger] m.nfas@[j], state) <==> owner(m, state.0 as int, j)) by { lemma_contains_id(m.nfas@[j], state); }
}
match __found {
    Some(f) => {
        proof {
            let i = choose|i: int| 0 <= i < self.nfas@.len() && *f == #[trigger] self.nfas@[i] && contains_id(*f, state);
            assert(owner(m, state.0 as int, i));
            assert forall|jj: int| #[trigger] owner(m, state.0 as int, jj) implies jj == i by { lemma_owner_unique(m, state.0 as int, i, jj); }
        }
        $e
    }
    None => {
        let __d: Vec<StateID> = Vec::new();
        proof { assert forall|jj: int| !#[trigger] owner(m, state.0 as int, jj) by { if 0 <= jj < mp_len(m) { assert(!contains_id(m.nfas@[jj], state)); } } }
        __d
    }
}'''),
                why=FIND_WHY + '; Option::map(|f| e).unwrap_or_default() is `match { Some(f) => e, None => Vec::new() }` (std definitions, Vec::default() == Vec::new())'),
    ])

INNER = '\ninvariant\n    {it}.obeys_prophetic_iter_laws(), {it}.decrease() is Some,\n    {it}.remaining().len() <= trs.len(),\n    forall|q: int| 0 <= q < {it}.remaining().len() ==> *#[trigger] {it}.remaining()[q] == trs[trs.len() - {it}.remaining().len() + q],\n    forall|cc: CharClassID, t: StateID| #[trigger] target_states@.contains((cc, t)) <==>\n        (ts_mid.contains((cc, t)) || exists|kk: int| 0 <= kk < trs.len() - {it}.remaining().len() && (#[trigger] trs[kk]).char_class == cc && trs[kk].target_state == t),\nensures\n    {it}.remaining().len() == 0,\ndecreases {it}.decrease()->0\n'
INNER_BODY = '\nlet ghost k0 = trs.len() - {it}.remaining().len() - 1;\nlet ghost before = target_states@;\nproof {{ assert(*state == trs[k0]); }}\n'
INNER_END = '\nproof {\n    assert(target_states@ == before.push((trs[k0].char_class, trs[k0].target_state)));\n    assert forall|cc: CharClassID, t: StateID| #[trigger] target_states@.contains((cc, t)) <==>\n        (ts_mid.contains((cc, t)) || exists|kk: int| 0 <= kk < k0 + 1 && (#[trigger] trs[kk]).char_class == cc && trs[kk].target_state == t) by {\n        lemma_push_contains_pair(before, (trs[k0].char_class, trs[k0].target_state), (cc, t));\n        assert(before.contains((cc, t)) <==> (ts_mid.contains((cc, t)) || exists|kk: int| 0 <= kk < k0 && (#[trigger] trs[kk]).char_class == cc && trs[kk].target_state == t));\n        if exists|kk: int| 0 <= kk < k0 + 1 && (#[trigger] trs[kk]).char_class == cc && trs[kk].target_state == t {\n            let kk = choose|kk: int| 0 <= kk < k0 + 1 && (#[trigger] trs[kk]).char_class == cc && trs[kk].target_state == t;\n            if kk == k0 { assert((cc, t) == (trs[k0].char_class, trs[k0].target_state)); }\n        }\n        if (cc, t) == (trs[k0].char_class, trs[k0].target_state) { assert(trs[k0].char_class == cc && trs[k0].target_state == t); }\n    }\n}\n'
AFTER_INNER = '\nproof {\n    assert forall|cc: CharClassID, t: StateID| #[trigger] target_states@.contains((cc, t)) <==> (ts_mid.contains((cc, t)) || tr_of(m.nfas@[own], aid, cc, t)) by {\n        if tr_of(m.nfas@[own], aid, cc, t) {\n            let k = choose|k: int| #[trigger] tr_at(m.nfas@[own], aid, k, cc, t);\n            assert(trs[k].char_class == cc && trs[k].target_state == t);\n        }\n        if exists|kk: int| 0 <= kk < trs.len() && (#[trigger] trs[kk]).char_class == cc && trs[kk].target_state == t {\n            let kk = choose|kk: int| 0 <= kk < trs.len() && (#[trigger] trs[kk]).char_class == cc && trs[kk].target_state == t;\n            assert(tr_at(m.nfas@[own], aid, kk, cc, t));\n        }\n    }\n}\n'
FOUND_NFA = '\nproof {{\n    let i = choose|i: int| 0 <= i < m.nfas@.len() && *nfa == #[trigger] m.nfas@[i] && contains_id(*nfa, {id});\n    lemma_contains_id(m.nfas@[i], {id});\n    assert(owner(m, {id}.0 as int, i));\n    {uniq}\n}}\n'
FOUND_STATE = '\nproof {{\n    let idx = choose|idx: int| 0 <= idx < nfa.states@.len() && *state == #[trigger] nfa.states@[idx] && state.state == {id};\n    assert(nfa.states@[idx].state.0 == n_off(*nfa) + idx);\n    assert(*state == st(*nfa, {id}.0 as int));\n}}\nlet ghost trs = state.transitions@;\nlet ghost ts_mid = target_states@;\nlet ghost aid = {id}.0 as int;\n'

mp_get_match_transitions = Fn(F_MP, 'MultiPatternNfa', 'get_match_transitions', ret='r', props=P, attrs='#[verifier::loop_isolation(false)] #[verifier::allow_complex_invariants]',
    spec='''
requires
    mp_wf(*self), start_states.obeys_prophetic_iter_laws(), start_states.decrease() is Some,
ensures
    // exactly the (class, target) pairs leaving one of the given states of the union
    forall|cc: CharClassID, t: StateID| #[trigger] r@.contains((cc, t)) <==> mp_mt_from(*self, start_states.remaining(), cc, t),
''',
    edits=[
        Ins('body_start', None, '''
let ghost m = *self;
let ghost ss = start_states.remaining();
'''),
        ForLoop('for state in start_states {', it='__it1', into_iter=False, label='mp_get_match_transitions.states', spec='''
invariant
    __it1.obeys_prophetic_iter_laws(), __it1.decrease() is Some, m == *self, mp_wf(m),
    __it1.remaining().len() <= ss.len(),
    forall|q: int| 0 <= q < __it1.remaining().len() ==> #[trigger] __it1.remaining()[q] == ss[ss.len() - __it1.remaining().len() + q],
    forall|cc: CharClassID, t: StateID| #[trigger] target_states@.contains((cc, t)) <==> mp_mt_upto(m, ss, ss.len() - __it1.remaining().len(), cc, t),
ensures
    __it1.remaining().len() == 0,
    forall|cc: CharClassID, t: StateID| #[trigger] target_states@.contains((cc, t)) <==> mp_mt_upto(m, ss, ss.len() as int, cc, t),
decreases __it1.decrease()->0
'''),
        Ins('after', 'for state in start_states {', '''
let ghost si = ss.len() - __it1.remaining().len() - 1;
let ghost ts_in = target_states@;
let ghost state0 = state;
proof { assert(state == ss[si]); }
'''),
        ForLoop('for transition in &self.start_transitions {', it='__it2', label='mp_get_match_transitions.start_transitions', spec='''
invariant
    __it2.obeys_prophetic_iter_laws(), __it2.decrease() is Some, m == *self, mp_wf(m), state0.0 == 0,
    __it2.remaining().len() <= mp_len(m),
    forall|q: int| 0 <= q < __it2.remaining().len() ==> *#[trigger] __it2.remaining()[q] == m.start_transitions@[mp_len(m) - __it2.remaining().len() + q],
    forall|cc: CharClassID, t: StateID| #[trigger] target_states@.contains((cc, t)) <==> (ts_in.contains((cc, t)) || start_tr_upto(m, mp_len(m) - __it2.remaining().len(), cc, t)),
ensures
    __it2.remaining().len() == 0,
decreases __it2.decrease()->0
'''),
        Ins('after', 'for transition in &self.start_transitions {', '''
let ghost own = mp_len(m) - __it2.remaining().len() - 1;
let ghost ts_j = target_states@;
proof {
    assert(*transition == m.start_transitions@[own]);
    assert(sub_wf(m.nfas@[own]));
    assert(transition.target_state == m.nfas@[own].start_state);
    assert(owner(m, transition.target_state.0 as int, own));
}
'''),
        Ins('after', 'if let Some(nfa) = self.find_nfa(transition.target_state()) {', FOUND_NFA.format(id='transition.target_state', uniq='lemma_owner_unique(m, transition.target_state.0 as int, i, own); assert(*nfa == m.nfas@[own]);')),
        Ins('after', 'if let Some(state) = nfa.find_state(transition.target_state()) {', FOUND_STATE.format(id='transition.target_state')),
        ForLoop('for state in state.transitions() {', it='__it3', occ=1, label='mp_get_match_transitions.start_fan_out', spec=INNER.format(it='__it3')),
        Ins('after', 'for state in state.transitions() {', INNER_BODY.format(it='__it3'), occ=1),
        Ins('after_stmt', 'target_states.push($_);', INNER_END, occ=1),
        Ins('block_end', 'if let Some(state) = nfa.find_state(transition.target_state()) {', AFTER_INNER),
        # the two panics of this branch are unreachable: the start transition's target is a state of its own pattern NFA
        Ins('before', 'panic!("NFA for target state not found");', 'proof { lemma_contains_id(m.nfas@[own], transition.target_state); }'),
        Ins('block_end', 'for transition in &self.start_transitions {', '''
proof {
    assert forall|cc: CharClassID, t: StateID| #[trigger] target_states@.contains((cc, t)) <==> (ts_in.contains((cc, t)) || start_tr_upto(m, own + 1, cc, t)) by {
        assert(ts_j.contains((cc, t)) <==> (ts_in.contains((cc, t)) || start_tr_upto(m, own, cc, t)));
        assert(target_states@.contains((cc, t)) <==> (ts_j.contains((cc, t)) || tr_of(m.nfas@[own], m.nfas@[own].start_state.0 as int, cc, t)));
        if start_tr_upto(m, own, cc, t) {
            let jj = choose|jj: int| 0 <= jj < own && jj < mp_len(m) && #[trigger] tr_of(m.nfas@[jj], m.nfas@[jj].start_state.0 as int, cc, t);
            assert(0 <= jj < own + 1);
        }
        if start_tr_upto(m, own + 1, cc, t) {
            let jj = choose|jj: int| 0 <= jj < own + 1 && jj < mp_len(m) && #[trigger] tr_of(m.nfas@[jj], m.nfas@[jj].start_state.0 as int, cc, t);
            if jj < own { assert(start_tr_upto(m, own, cc, t)); }
        }
        if tr_of(m.nfas@[own], m.nfas@[own].start_state.0 as int, cc, t) { assert(0 <= own < own + 1 && own < mp_len(m)); }
    }
}
'''),
        Ins('after', 'else if let Some(nfa) = self.find_nfa(state) {', '''
let ghost own = choose|i: int| 0 <= i < m.nfas@.len() && *nfa == #[trigger] m.nfas@[i] && contains_id(*nfa, state0);
''' + FOUND_NFA.format(id='state0', uniq='assert(i == own); assert forall|jj: int| #[trigger] owner(m, state0.0 as int, jj) implies jj == own by { lemma_owner_unique(m, state0.0 as int, own, jj); }')),
        Ins('after', 'if let Some(state) = nfa.find_state(state) {', FOUND_STATE.format(id='state0')),
        ForLoop('for state in state.transitions() {', it='__it4', occ=2, label='mp_get_match_transitions.fan_out', spec=INNER.format(it='__it4')),
        Ins('after', 'for state in state.transitions() {', INNER_BODY.format(it='__it4'), occ=2),
        Ins('after_stmt', 'target_states.push($_);', INNER_END, occ=2),
        Ins('block_end', 'if let Some(state) = nfa.find_state(state) {', AFTER_INNER),
        Ins('block_end', 'for state in start_states {', '''
proof {
    let a = state0.0 as int;
    assert forall|cc: CharClassID, t: StateID| #[trigger] target_states@.contains((cc, t)) <==> (ts_in.contains((cc, t)) || mp_trans(m, a, cc, t)) by {
        if a != 0 && mp_trans(m, a, cc, t) {
            let j = choose|j: int| #[trigger] owner(m, a, j) && tr_of(m.nfas@[j], a, cc, t);
            lemma_contains_id(m.nfas@[j], state0);
        }
    }
    assert forall|cc: CharClassID, t: StateID| #[trigger] target_states@.contains((cc, t)) <==> mp_mt_upto(m, ss, si + 1, cc, t) by {
        assert(ts_in.contains((cc, t)) <==> mp_mt_upto(m, ss, si, cc, t));
        if mp_mt_upto(m, ss, si, cc, t) {
            let ii = choose|ii: int| 0 <= ii < si && ii < ss.len() && #[trigger] mp_trans(m, ss[ii].0 as int, cc, t);
            assert(0 <= ii < si + 1);
        }
        if mp_mt_upto(m, ss, si + 1, cc, t) {
            let ii = choose|ii: int| 0 <= ii < si + 1 && ii < ss.len() && #[trigger] mp_trans(m, ss[ii].0 as int, cc, t);
            if ii < si { assert(mp_mt_upto(m, ss, si, cc, t)); }
        }
        if mp_trans(m, a, cc, t) { assert(0 <= si < si + 1 && si < ss.len() && mp_trans(m, ss[si].0 as int, cc, t)); }
    }
}
'''),
        Ins('before', 'target_states.sort_by_key($_);', 'let ghost ts = target_states@;'),
        Ins('after_stmt', 'target_states.sort_by_key($_);', 'let ghost sorted = target_states@;'),
        Tail('''
proof {
    lemma_dedup_contains(sorted);
    assert(__res@ == dedup_adj(sorted));
    assert forall|cc: CharClassID, t: StateID| #[trigger] __res@.contains((cc, t)) <==> mp_mt_from(m, ss, cc, t) by {
        assert(__res@.contains((cc, t)) <==> sorted.contains((cc, t)));
        assert(sorted.contains((cc, t)) <==> ts.contains((cc, t)));
    }
}
'''),
    ])

UNIT = dict(
    name='u_sub',
    externs=[],
    header='''#![feature(allocator_api)]
#![feature(sized_hierarchy)]
#![allow(unused_imports, unused_variables, unused_mut, unused_assignments, dead_code, unused_parens, unused_braces)]
use vstd::prelude::*;
use vstd::std_specs::iter::IteratorSpec;
use std::alloc::Allocator;
''',
    items=[
        IdMacro(F_IDS, 'StateID', members=('new', 'as_usize', 'id'), index_for=('Vec', 'slice'), specs=ID_SPECS, with_from=True),
        IdMacro(F_IDS, 'CharClassID', members=('new', 'as_usize', 'id'), index_for=(), specs=ID_SPECS),
        Raw('''
// `impl Display for StateID` of impl_id! (only used by the messages of unreachable panics)
#[verifier::external]
impl std::fmt::Display for StateID {
    fn fmt(&self, f: &mut std::fmt::Formatter<'_>) -> std::fmt::Result { write!(f, "{}", self.0) }
}
// opaque: carried along, never inspected by the closure functions
#[verifier::external_body] pub struct Pattern { _private: () }
#[verifier::external_body] pub struct ComparableAst { _private: () }

pub assume_specification<T: PartialEq>[ <[T]>::contains ](s: &[T], x: &T) -> (r: bool)
    ensures r == s@.contains(*x);   // assumes T's PartialEq is structural

''', label='opaque Pattern/ComparableAst; trusted std contract: <[T]>::contains'),
        Struct(F_NFA, 'EpsilonTransition', derive=[]),
        Struct(F_NFA, 'NfaTransition', derive=[]),
        Struct(F_NFA, 'NfaState', derive=[]),
        Struct(F_NFA, 'Nfa', derive=[]),
        RawFile('sub_spec.rs'),
        st_id, st_trans, st_eps, tr_target, tr_cc, eps_target, nfa_states, nfa_start,
        find_state, contains_state, epsilon_closure, get_match_transitions,
        Struct(F_MP, 'MultiPatternNfa', derive=[]),
        RawFile('mp_spec.rs'),
        nfa_end, mp_is_accepting, mp_find_nfa, mp_epsilon_closure, mp_get_match_transitions,
    ],
)
