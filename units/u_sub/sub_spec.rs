// ---------------------------------------------------------------- U-sub: graph view of an NFA whose state ids are `index + offset` (C02, closure layer)
/// id of the first state; ids are consecutive from there (ids_ok, then shift_ids(offset) in the multi-pattern union)
pub open spec fn n_off(n: Nfa) -> int { n.states@[0].state.0 as int }
pub open spec fn n_len(n: Nfa) -> int { n.states@.len() as int }
pub open spec fn has_state(n: Nfa, a: int) -> bool { n_off(n) <= a < n_off(n) + n_len(n) }
pub open spec fn st(n: Nfa, a: int) -> NfaState { n.states@[a - n_off(n)] }

/// shape the build pipeline hands to the closure functions: consecutive ids, every target is one of the NFA's own states
pub open spec fn sub_wf(n: Nfa) -> bool {
    &&& n_len(n) >= 1
    &&& n_off(n) + n_len(n) <= u32::MAX
    &&& forall|i: int| 0 <= i < n_len(n) ==> (#[trigger] n.states@[i]).state.0 == n_off(n) + i
    &&& forall|i: int, k: int| 0 <= i < n_len(n) && 0 <= k < n.states@[i].epsilon_transitions@.len() ==> has_state(n, (#[trigger] n.states@[i].epsilon_transitions@[k]).target_state.0 as int)
    &&& forall|i: int, k: int| 0 <= i < n_len(n) && 0 <= k < n.states@[i].transitions@.len() ==> has_state(n, (#[trigger] n.states@[i].transitions@[k]).target_state.0 as int)
    &&& has_state(n, n.start_state.0 as int)
    &&& has_state(n, n.end_state.0 as int)
}

pub open spec fn eps_edge(n: Nfa, a: int, b: int) -> bool {
    has_state(n, a) && exists|k: int| 0 <= k < st(n, a).epsilon_transitions@.len() && (#[trigger] st(n, a).epsilon_transitions@[k]).target_state.0 == b
}
/// b is reachable from a by exactly k epsilon edges
pub open spec fn eps_path(n: Nfa, a: int, b: int, k: nat) -> bool
    decreases k
{
    if k == 0 { a == b } else { exists|m: int| eps_path(n, a, m, (k - 1) as nat) && #[trigger] eps_edge(n, m, b) }
}
/// the epsilon closure, as a predicate: reflexive-transitive closure of eps_edge
pub open spec fn eps_reach(n: Nfa, a: int, b: int) -> bool { exists|k: nat| eps_path(n, a, b, k) }

pub proof fn lemma_reach_refl(n: Nfa, a: int)
    ensures eps_reach(n, a, a)
{
    assert(eps_path(n, a, a, 0));
}
pub proof fn lemma_reach_step(n: Nfa, a: int, m: int, b: int)
    requires eps_reach(n, a, m), eps_edge(n, m, b)
    ensures eps_reach(n, a, b)
{
    let k = choose|k: nat| eps_path(n, a, m, k);
    assert(eps_path(n, a, m, ((k + 1) - 1) as nat) && eps_edge(n, m, b));
    assert(eps_path(n, a, b, k + 1));
}
/// a set that contains a and is closed under eps_edge contains everything reachable from a
pub proof fn lemma_closed_contains_reach(n: Nfa, a: int, s: ISet<int>, b: int, k: nat)
    requires s.contains(a), forall|x: int, y: int| s.contains(x) && #[trigger] eps_edge(n, x, y) ==> s.contains(y), eps_path(n, a, b, k)
    ensures s.contains(b)
    decreases k
{
    if k > 0 {
        let m = choose|m: int| eps_path(n, a, m, (k - 1) as nat) && #[trigger] eps_edge(n, m, b);
        lemma_closed_contains_reach(n, a, s, m, (k - 1) as nat);
        assert(eps_edge(n, m, b));
    }
}
/// everything reachable from a state of the NFA is a state of the NFA
pub proof fn lemma_reach_has_state(n: Nfa, a: int, b: int, k: nat)
    requires sub_wf(n), has_state(n, a), eps_path(n, a, b, k)
    ensures has_state(n, b)
    decreases k
{
    if k > 0 {
        let m = choose|m: int| eps_path(n, a, m, (k - 1) as nat) && #[trigger] eps_edge(n, m, b);
        lemma_reach_has_state(n, a, m, (k - 1) as nat);
        let kk = choose|kk: int| 0 <= kk < st(n, m).epsilon_transitions@.len() && (#[trigger] st(n, m).epsilon_transitions@[kk]).target_state.0 == b;
        assert(has_state(n, n.states@[m - n_off(n)].epsilon_transitions@[kk].target_state.0 as int));
    }
}

// ---- sequences of ids
pub open spec fn strictly_sorted(s: Seq<StateID>) -> bool { forall|i: int, j: int| 0 <= i < j < s.len() ==> (#[trigger] s[i]).0 < (#[trigger] s[j]).0 }

/// a duplicate-free sequence of ids drawn from [lo, lo+n) has at most n elements
pub proof fn lemma_nodup_bounded(s: Seq<StateID>, lo: int, n: int)
    requires s.no_duplicates(), n >= 0, forall|i: int| 0 <= i < s.len() ==> lo <= (#[trigger] s[i]).0 < lo + n
    ensures s.len() <= n
{
    let m = s.map_values(|x: StateID| x.0 as int);
    assert(m.no_duplicates()) by {
        assert forall|i: int, j: int| 0 <= i < m.len() && 0 <= j < m.len() && i != j implies m[i] != m[j] by {
            assert(s[i] != s[j]);
        }
    }
    m.unique_seq_to_set();
    let r = vstd::set_lib::set_int_range(lo, lo + n);
    vstd::set_lib::lemma_int_range(lo, lo + n);
    assert(m.to_set().subset_of(r)) by {
        assert forall|x: int| m.to_set().contains(x) implies r.contains(x) by {
            let i = choose|i: int| 0 <= i < m.len() && m[i] == x;
            assert(lo <= s[i].0 < lo + n);
        }
    }
    vstd::set_lib::lemma_len_subset(m.to_set(), r);
}

// ---- trusted std contracts: sort_unstable / dedup on vectors whose element order is the order of an injective integer key
pub uninterp spec fn ord_key<T>(x: T) -> int;
pub uninterp spec fn has_ord_key<T>() -> bool;
/// derived Ord of the id newtype = order of the wrapped integer; of a pair = lexicographic (rule E4)
pub broadcast axiom fn axiom_key_stateid(x: StateID)
    ensures has_ord_key::<StateID>(), #[trigger] ord_key(x) == x.0;
pub broadcast axiom fn axiom_key_pair(x: (CharClassID, StateID))
    ensures has_ord_key::<(CharClassID, StateID)>(), #[trigger] ord_key(x) == x.0.0 * 0x1_0000_0000 + x.1.0;

pub open spec fn key_sorted<T>(s: Seq<T>) -> bool { forall|i: int, j: int| 0 <= i < j < s.len() ==> ord_key(#[trigger] s[i]) <= ord_key(#[trigger] s[j]) }
pub open spec fn key_strict<T>(s: Seq<T>) -> bool { forall|i: int, j: int| 0 <= i < j < s.len() ==> ord_key(#[trigger] s[i]) < ord_key(#[trigger] s[j]) }
pub open spec fn key_injective<T>() -> bool { forall|x: T, y: T| #![trigger ord_key(x), ord_key(y)] ord_key(x) == ord_key(y) ==> x == y }

pub assume_specification<T: Ord>[ <[T]>::sort_unstable ](s: &mut [T])
    ensures
        final(s)@.len() == old(s)@.len(),
        final(s)@.to_multiset() == old(s)@.to_multiset(),
        forall|x: T| #![trigger final(s)@.contains(x)] #![trigger old(s)@.contains(x)] final(s)@.contains(x) <==> old(s)@.contains(x),
        old(s)@.no_duplicates() ==> final(s)@.no_duplicates(),
        has_ord_key::<T>() ==> key_sorted(final(s)@);

/// Vec::dedup: an element survives iff it differs from its predecessor (assumes T's PartialEq is structural)
pub open spec fn dedup_adj<T>(s: Seq<T>) -> Seq<T>
    decreases s.len()
{
    if s.len() <= 1 { s } else {
        let r = dedup_adj(s.drop_last());
        if s[s.len() - 2] == s.last() { r } else { r.push(s.last()) }
    }
}
pub assume_specification<T: PartialEq, A: Allocator>[ Vec::<T, A>::dedup ](v: &mut Vec<T, A>)
    ensures final(v)@ == dedup_adj(old(v)@);

pub proof fn lemma_dedup_sorted<T>(s: Seq<T>)
    requires key_sorted(s), key_injective::<T>()
    ensures
        key_strict(dedup_adj(s)),
        forall|x: T| #![trigger dedup_adj(s).contains(x)] #![trigger s.contains(x)] dedup_adj(s).contains(x) <==> s.contains(x),
        s.len() > 0 ==> dedup_adj(s).len() > 0 && dedup_adj(s).last() == s.last(),
    decreases s.len()
{
    if s.len() <= 1 {
    } else {
        let t = s.drop_last();
        assert(key_sorted(t)) by {
            assert forall|i: int, j: int| 0 <= i < j < t.len() implies ord_key(#[trigger] t[i]) <= ord_key(#[trigger] t[j]) by { assert(t[i] == s[i] && t[j] == s[j]); }
        }
        lemma_dedup_sorted(t);
        let r = dedup_adj(t);
        let d = dedup_adj(s);
        assert(t.last() == s[s.len() - 2]);
        assert forall|x: T| #![trigger d.contains(x)] #![trigger s.contains(x)] d.contains(x) <==> s.contains(x) by {
            if s.contains(x) {
                let i = choose|i: int| 0 <= i < s.len() && s[i] == x;
                if i < s.len() - 1 { assert(t[i] == x); assert(t.contains(x)); assert(r.contains(x)); if d != r { let j = choose|j: int| 0 <= j < r.len() && r[j] == x; assert(d[j] == x); } }
                else { if s[s.len() - 2] == s.last() { assert(t.contains(t.last())); assert(r.contains(x)); } else { assert(d[d.len() - 1] == x); } }
            }
            if d.contains(x) {
                let j = choose|j: int| 0 <= j < d.len() && d[j] == x;
                if j < r.len() { assert(r[j] == x); assert(r.contains(x)); assert(t.contains(x)); let i = choose|i: int| 0 <= i < t.len() && t[i] == x; assert(s[i] == x); }
                else { assert(x == s.last()); assert(s[s.len() - 1] == x); }
            }
        }
        if s[s.len() - 2] != s.last() {
            assert forall|i: int, j: int| 0 <= i < j < d.len() implies ord_key(#[trigger] d[i]) < ord_key(#[trigger] d[j]) by {
                if j < r.len() { assert(d[i] == r[i] && d[j] == r[j]); }
                else {
                    assert(d[j] == s.last());
                    assert(d[i] == r[i]);
                    // r[i] <= r.last() == t.last() < s.last()
                    assert(ord_key(s[s.len() - 2]) <= ord_key(s[s.len() - 1]));
                    if i < r.len() - 1 { assert(ord_key(r[i]) < ord_key(r[r.len() - 1])); }
                }
            }
        }
    }
}

// ---- match transitions leaving a sequence of states (index-addressed, as Nfa::get_match_transitions does)
pub open spec fn mt_at(n: Nfa, ss: Seq<StateID>, i: int, k: int, cc: CharClassID, t: StateID) -> bool {
    &&& 0 <= i < ss.len() && ss[i].0 < n.states@.len()
    &&& 0 <= k < n.states@[ss[i].0 as int].transitions@.len()
    &&& n.states@[ss[i].0 as int].transitions@[k].char_class == cc
    &&& n.states@[ss[i].0 as int].transitions@[k].target_state == t
}
pub open spec fn mt_from(n: Nfa, ss: Seq<StateID>, cc: CharClassID, t: StateID) -> bool {
    exists|i: int, k: int| #[trigger] mt_at(n, ss, i, k, cc, t)
}
/// restricted to the pairs (state index, transition index) lexicographically below (si, ti)
pub open spec fn mt_upto(n: Nfa, ss: Seq<StateID>, si: int, ti: int, cc: CharClassID, t: StateID) -> bool {
    exists|i: int, k: int| #[trigger] mt_at(n, ss, i, k, cc, t) && (i < si || (i == si && k < ti))
}
pub proof fn lemma_push_contains_pair<T>(s: Seq<T>, e: T, x: T)
    ensures s.push(e).contains(x) <==> (s.contains(x) || x == e)
{
    if s.contains(x) { let i = choose|i: int| 0 <= i < s.len() && s[i] == x; assert(s.push(e)[i] == x); }
    if x == e { assert(s.push(e)[s.len() as int] == x); }
    if s.push(e).contains(x) { let i = choose|i: int| 0 <= i < s.push(e).len() && s.push(e)[i] == x; if i < s.len() { assert(s[i] == x); } }
}
pub proof fn lemma_pair_key_injective()
    ensures key_injective::<(CharClassID, StateID)>()
{
    assert forall|x: (CharClassID, StateID), y: (CharClassID, StateID)| #![trigger ord_key(x), ord_key(y)] ord_key(x) == ord_key(y) implies x == y by {
        axiom_key_pair(x); axiom_key_pair(y);
        assert(x.0.0 * 0x1_0000_0000 + x.1.0 == y.0.0 * 0x1_0000_0000 + y.1.0);
        assert(x.0.0 == y.0.0 && x.1.0 == y.1.0) by (nonlinear_arith)
            requires x.0.0 * 0x1_0000_0000 + x.1.0 == y.0.0 * 0x1_0000_0000 + y.1.0, 0 <= x.1.0 < 0x1_0000_0000, 0 <= y.1.0 < 0x1_0000_0000, 0 <= x.0.0, 0 <= y.0.0;
    }
}

pub proof fn lemma_sorted_nodup_strict<T>(s: Seq<T>)
    requires key_sorted(s), s.no_duplicates(), key_injective::<T>()
    ensures key_strict(s)
{
    assert forall|i: int, j: int| 0 <= i < j < s.len() implies ord_key(#[trigger] s[i]) < ord_key(#[trigger] s[j]) by {
        assert(s[i] != s[j]);
    }
}
pub proof fn lemma_stateid_key_injective()
    ensures key_injective::<StateID>(), has_ord_key::<StateID>()
{
    axiom_key_stateid(StateID(0));
    assert forall|x: StateID, y: StateID| #![trigger ord_key(x), ord_key(y)] ord_key(x) == ord_key(y) implies x == y by { axiom_key_stateid(x); axiom_key_stateid(y); }
}
pub proof fn lemma_strict_ids(s: Seq<StateID>)
    requires key_strict(s)
    ensures strictly_sorted(s)
{
    assert forall|i: int, j: int| 0 <= i < j < s.len() implies (#[trigger] s[i]).0 < (#[trigger] s[j]).0 by { axiom_key_stateid(s[i]); axiom_key_stateid(s[j]); }
}
/// dedup keeps at least one copy of every element, sorted or not
pub proof fn lemma_dedup_contains<T>(s: Seq<T>)
    ensures
        forall|x: T| #![trigger dedup_adj(s).contains(x)] #![trigger s.contains(x)] dedup_adj(s).contains(x) <==> s.contains(x),
        s.len() > 0 ==> dedup_adj(s).len() > 0 && dedup_adj(s).last() == s.last(),
    decreases s.len()
{
    if s.len() <= 1 {
    } else {
        let t = s.drop_last();
        lemma_dedup_contains(t);
        let r = dedup_adj(t);
        let d = dedup_adj(s);
        assert(t.last() == s[s.len() - 2]);
        assert forall|x: T| #![trigger d.contains(x)] #![trigger s.contains(x)] d.contains(x) <==> s.contains(x) by {
            if s.contains(x) {
                let i = choose|i: int| 0 <= i < s.len() && s[i] == x;
                if i < s.len() - 1 { assert(t[i] == x); assert(t.contains(x)); assert(r.contains(x)); if d != r { let j = choose|j: int| 0 <= j < r.len() && r[j] == x; assert(d[j] == x); } }
                else { if s[s.len() - 2] == s.last() { assert(t.contains(t.last())); assert(r.contains(x)); } else { assert(d[d.len() - 1] == x); } }
            }
            if d.contains(x) {
                let j = choose|j: int| 0 <= j < d.len() && d[j] == x;
                if j < r.len() { assert(r[j] == x); assert(r.contains(x)); assert(t.contains(x)); let i = choose|i: int| 0 <= i < t.len() && t[i] == x; assert(s[i] == x); }
                else { assert(x == s.last()); assert(s[s.len() - 1] == x); }
            }
        }
    }
}

