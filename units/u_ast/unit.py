# U-ast: Nfa::try_from_ast rejects every documented-unsupported construct at any depth (C15).
# Only the Ok/Err skeleton is under contract; the NFA combinators are opaque stubs whose signatures are extracted.
from extract import *

F_NFA = 'scnr/src/internal/nfa.rs'

RANGE_LOOP = '''
invariant
    {it}.obeys_prophetic_iter_laws(), {it}.decrease() is Some,
decreases {it}.decrease()->0
'''


def stub(name):
    return Fn(F_NFA, 'Nfa', name, external_body=True, trusted_reason='NFA construction is opaque in this unit (only Ok/Err is decided)')


try_from_ast = Fn(
    F_NFA, 'Nfa', 'try_from_ast', ret='r', attrs='#[verifier::loop_isolation(false)] #[verifier::allow_complex_invariants]',
    spec='''
ensures has_unsupported(ast) ==> r is Err
decreases ast
''',
    props=['C15'],
    edits=[
        Ins('body_start', None, 'let ghost ast0 = ast;'),
        Replace('E5', 'nfa.set_pattern(&ast.to_string());', 'nfa.set_pattern(&verif_ast_to_string(&ast));',
                why='TRUSTED: Display of the AST (pattern text, debugging only) is opaque'),
        Replace('E5', 'Err(unsupported!($_))', 'Err(verif_unsupported())', occ='all', why='TRUSTED: error message construction (format!) is opaque'),
        ForLoop('for _ in $lo..$hi {', it='__r1', occ=1, spec=RANGE_LOOP.format(it='__r1'), label='try_from_ast.exactly'),
        ForLoop('for _ in $lo..$hi {', it='__r2', occ=2, spec=RANGE_LOOP.format(it='__r2'), label='try_from_ast.at_least'),
        ForLoop('for _ in $lo..$hi {', it='__r3', occ=3, spec=RANGE_LOOP.format(it='__r3'), label='try_from_ast.bounded_least'),
        ForLoop('for _ in $lo..$hi {', it='__r4', occ=4, spec=RANGE_LOOP.format(it='__r4'), label='try_from_ast.bounded_most'),
        Replace('E11', 'if flags.items.iter().any(|f| $body) {', '''
let mut __any = false;
let ghost fi = flags.items@;
let ghost mut fk: int = 0;
let mut __it0 = flags.items.iter();
loop
    invariant_except_break
        !__any,
        forall|k: int| 0 <= k < fk ==> !is_flag_item(fi[k]),
        __it0.remaining().len() == fi.len() - fk,
        forall|i: int| 0 <= i < __it0.remaining().len() ==> *#[trigger] __it0.remaining()[i] == fi[fk + i],
    invariant
        __it0.obeys_prophetic_iter_laws(), __it0.decrease() is Some,
        fi == flags.items@, 0 <= fk <= fi.len(),
    ensures
        __any ==> 0 <= fk < fi.len() && is_flag_item(fi[fk]),
        !__any ==> forall|k: int| 0 <= k < fi.len() ==> !is_flag_item(fi[k]),
    decreases __it0.decrease()->0
{
    let Some(f) = __it0.next() else { break };
    proof { assert(*f == fi[fk]); }
    if $body { __any = true; break; }
    proof { fk = fk + 1; }
}
proof {
    if __any { assert(0 <= idx(fk) < fi.len() && is_flag_item(fi[fk])); }
    else {
        assert forall|k: int| 0 <= #[trigger] idx(k) < fi.len() implies !is_flag_item(fi[k]) by { }
    }
}
if __any {''', why='iter().any(|f| p(f)) is the short-circuiting loop `for f in iter { if p(f) { return true } } false` (std definition); the predicate body is kept verbatim'),
        # Alternation
        Ins('after_stmt', 'let mut asts = a.asts.iter();', '''
let ghost xs = a.asts@;
let ghost mut n: int = 0;
proof {
    assert(asts.remaining().len() == xs.len());
    assert(forall|i: int| 0 <= i < asts.remaining().len() ==> *#[trigger] asts.remaining()[i] == xs[i]);
}
''', label='try_from_ast.alternation'),
        Ins('after', 'if let Some(ast) = asts.next() {', '''
proof { assert(*ast == xs[0]); }
'''),
        Ins('after_stmt', 'nfa.pattern = pattern;', '''
proof {
    assert(!unsupported_at(xs, 0));
    n = 1;
}
'''),
        ForLoop('for ast in asts {', it='__it1', into_iter=False, label='try_from_ast.alternation_loop', spec='''
invariant
    __it1.obeys_prophetic_iter_laws(), __it1.decrease() is Some,
    xs == a.asts@, ast0 == Ast::Alternation(*a) ,
    0 <= n <= xs.len(), __it1.remaining().len() == xs.len() - n,
    forall|i: int| 0 <= i < __it1.remaining().len() ==> *#[trigger] __it1.remaining()[i] == xs[n + i],
    forall|k: int| 0 <= #[trigger] idx(k) < n ==> !unsupported_at(xs, k),
ensures n == xs.len(), forall|k: int| 0 <= #[trigger] idx(k) < n ==> !unsupported_at(xs, k),
decreases __it1.decrease()->0
'''),
        Ins('after', 'for ast in asts {', '''
proof { assert(*ast == xs[n]); assert(*ast == a.asts@[n]); assert(ast0 == Ast::Alternation(*a)); }
''', occ=1),
        Ins('after_stmt', 'nfa.alternation(nfa2);', '''
proof { assert(!unsupported_at(xs, n)); n = n + 1; }
'''),
        Ins('after_stmt', 'for ast in asts {', '''
proof {
    assert(!any_unsupported(xs, xs.len() as int));
    assert(has_unsupported(ast0) == any_unsupported(a.asts@, a.asts@.len() as int));
}
''', label='try_from_ast.alternation_done'),
        Ins('after_stmt', 'for ast in c.asts.iter() {', '''
proof {
    assert(!any_unsupported(ys, ys.len() as int));
    assert(has_unsupported(ast0) == any_unsupported(c.asts@, c.asts@.len() as int));
}
''', label='try_from_ast.concat_done'),
        # Concat
        Ins('before', 'for ast in c.asts.iter() {', '''
let ghost ys = c.asts@;
let ghost mut m: int = 0;
'''),
        ForLoop('for ast in c.asts.iter() {', it='__it2', into_iter=False, label='try_from_ast.concat_loop', spec='''
invariant
    __it2.obeys_prophetic_iter_laws(), __it2.decrease() is Some,
    ys == c.asts@, ast0 == Ast::Concat(*c),
    0 <= m <= ys.len(), __it2.remaining().len() == ys.len() - m,
    forall|i: int| 0 <= i < __it2.remaining().len() ==> *#[trigger] __it2.remaining()[i] == ys[m + i],
    forall|k: int| 0 <= #[trigger] idx(k) < m ==> !unsupported_at(ys, k),
ensures m == ys.len(), forall|k: int| 0 <= #[trigger] idx(k) < m ==> !unsupported_at(ys, k),
decreases __it2.decrease()->0
'''),
        Ins('after', 'for ast in c.asts.iter() {', '''
proof { assert(*ast == ys[m]); assert(*ast == c.asts@[m]); assert(ast0 == Ast::Concat(*c)); }
'''),
        Ins('after_stmt', 'nfa.concat(nfa2);', '''
proof { assert(!unsupported_at(ys, m)); m = m + 1; }
''', occ=1),
    ])

UNIT = dict(
    name='u_ast',
    externs=['regex_syntax'],
    header='''#![feature(allocator_api)]
#![feature(sized_hierarchy)]
#![allow(unused_imports, unused_variables, unused_mut, unused_assignments, dead_code, unused_parens, unused_braces)]
use vstd::prelude::*;
use vstd::std_specs::iter::IteratorSpec;
use regex_syntax::ast::{
    Alternation, Assertion, Ast, CaptureName, ClassBracketed, ClassPerl, ClassUnicode, Concat, Flag, Flags, FlagsItem, FlagsItemKind, Group,
    GroupKind, Literal, Position, Repetition, RepetitionKind, RepetitionOp, RepetitionRange, SetFlags, Span,
};
''',
    items=[
        RawFile('../u_ast/ast_types.rs'),
        RawFile('../u_ast/ast_spec.rs'),
        Struct(F_NFA, 'Nfa', derive=[]),
        Raw('''
// TRUSTED: derived Clone of Nfa
impl Clone for Nfa {
    #[verifier::external_body]
    fn clone(&self) -> (r: Self) { unimplemented!() }
}
impl Clone for StateID {
    #[verifier::external_body]
    fn clone(&self) -> (r: Self) { unimplemented!() }
}
impl Copy for StateID {}
''', label='opaque clones'),
        stub('new'), stub('set_pattern'), stub('end_state'), stub('new_state'), stub('set_end_state'), stub('add_transition'),
        stub('zero_or_one'), stub('zero_or_more'), stub('one_or_more'), stub('concat'), stub('alternation'),
        try_from_ast,
    ],
)
