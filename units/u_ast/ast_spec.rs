// ---------------------------------------------------------------- U-ast: the "unsupported feature" predicate (C15)
/// a flag item `(?i:..)` inside a non-capturing group
pub open spec fn is_flag_item(f: FlagsItem) -> bool { f.kind is Flag }

pub open spec fn group_flagged(g: Group) -> bool {
    match g.kind {
        GroupKind::NonCapturing(flags) => exists|k: int| 0 <= #[trigger] idx(k) < flags.items@.len() && is_flag_item(flags.items@[k]),
        _ => false,
    }
}

/// the pattern uses a construct documented as unsupported, at any depth: flags, assertions (anchors, word boundaries),
/// non-greedy repetition, flagged groups
pub open spec fn has_unsupported(a: Ast) -> bool
    decreases a
{
    match a {
        Ast::Flags(_) => true,
        Ast::Assertion(_) => true,
        Ast::Repetition(r) => !r.greedy || has_unsupported(*r.ast),
        Ast::Group(g) => group_flagged(*g) || has_unsupported(*g.ast),
        Ast::Alternation(x) => any_unsupported(x.asts@, x.asts@.len() as int),
        Ast::Concat(x) => any_unsupported(x.asts@, x.asts@.len() as int),
        _ => false,
    }
}

pub open spec fn unsupported_at(asts: Seq<Ast>, k: int) -> bool
    decreases asts, 0int
{
    0 <= k < asts.len() && has_unsupported(asts[k])
}

/// one of the first n sub-patterns uses an unsupported construct
pub open spec fn any_unsupported(asts: Seq<Ast>, n: int) -> bool
    decreases asts, 1int
{
    exists|k: int| 0 <= #[trigger] idx(k) < n && unsupported_at(asts, k)
}

// ---- everything the function does besides deciding Ok / Err is opaque here
#[verifier::external_body] pub struct ScnrError { _private: () }
pub type Result<T> = std::result::Result<T, ScnrError>;
#[verifier::external_body] pub struct NfaState { _private: () }
#[verifier::external_body] pub struct Pattern { _private: () }
#[verifier::external_body] pub struct CharacterClassRegistry { _private: () }
#[verifier::external_body] pub struct StateID { _private: () }

// TRUSTED: construction of the error value (`unsupported!(format!(..))`) and of the pattern text (`ast.to_string()`)
#[verifier::external_body] pub fn verif_unsupported() -> ScnrError { unimplemented!() }
#[verifier::external_body] pub fn verif_ast_to_string(a: &Ast) -> String { unimplemented!() }

