#!/bin/bash
# usage: seed_eval3.sh <worktree-id> <agent-out-dir> <agent-seed-name> <stored-name> <prop>...   (round-6 layout: <out>/<name>/{patch.diff,demo.rs,meta.json})
set -u
wtid=$1; wt=/tmp/seed_$1; od=$2; an=$3; name=$4; shift 4
cd $wt || exit 9
git checkout -q -- . ; rm -f scnr/tests/seed_demo.rs scnr/tests/zz_demo.rs
git apply $od/$an/patch.diff || { echo "patch does not apply in worktree"; exit 8; }
mkdir -p SEED; cp $od/$an/demo.rs SEED/demo.rs; cp $od/$an/meta.json SEED/meta.txt
cp SEED/demo.rs scnr/tests/seed_demo.rs
/verif/tools/seed_eval.sh $wtid $name "$@"
cd $wt && git checkout -q -- . ; rm -f scnr/tests/seed_demo.rs; rm -rf SEED
