"""python side of the replay searcher: builds /verif/searcher against the real crate in REPO and runs it"""
import os, json, subprocess, time

VERIF = os.path.dirname(os.path.dirname(os.path.abspath(__file__)))
SRC = os.path.join(VERIF, 'searcher')
FAMILIES = {
    'C01': ['stream', 'modes', 'regex'], 'C02': ['stream', 'lookahead', 'la_compete', 'finite', 'regex', 'modes'], 'C03': ['finite', 'regex', 'stream', 'lookahead'],
    'C04': ['lookahead', 'la_compete', 'offset', 'peek'], 'C05': ['lookahead', 'la_compete'], 'C06': ['modes', 'isolation'],
    'C07': ['stream', 'lookahead', 'offset', 'la_compete', 'unsupported'], 'C13': ['cache'], 'C08': ['classes', 'named_classes', 'named_leaves'], 'C15': ['unsupported'], 'C09': ['positions'],
    'C10': ['offset', 'peek'], 'C17': ['large'], 'C11': ['peek', 'modes', 'offset'], 'C12': ['isolation', 'modes'],
}


def build(repo):
    """(re)build the searcher against repo's working tree; returns path of the binary or raises"""
    work = os.path.join(os.environ.get('VERIF_BUILD') or os.path.join(VERIF, 'build'), 'searcher')
    os.makedirs(os.path.join(work, 'src'), exist_ok=True)

    def put(path, text):
        # atomic and only when the content differs: several checks may build the searcher at the same time (cargo serialises the build itself)
        if os.path.exists(path) and open(path).read() == text:
            return
        tmp = '%s.tmp%d' % (path, os.getpid())
        open(tmp, 'w').write(text)
        os.replace(tmp, path)

    put(os.path.join(work, 'Cargo.toml'), '''[package]
name = "scnr-searcher"
version = "0.0.0"
edition = "2021"
[dependencies]
scnr = { path = "%s/scnr" }
regex = "1"
serde = { version = "1", features = ["derive"] }
serde_json = "1"
[workspace]
''' % repo)
    put(os.path.join(work, 'src', 'main.rs'), open(os.path.join(SRC, 'src', 'main.rs')).read())
    lock = os.path.join(repo, 'Cargo.lock')
    if os.path.exists(lock) and not os.path.exists(os.path.join(work, 'Cargo.lock')):
        put(os.path.join(work, 'Cargo.lock'), open(lock).read())
    env = dict(os.environ, CARGO_NET_OFFLINE='true', CARGO_TARGET_DIR=os.path.join(work, 'target'))
    r = subprocess.run(['cargo', 'build', '--release', '--offline', '-q'], cwd=work, env=env, stdout=subprocess.PIPE, stderr=subprocess.PIPE, text=True)
    if r.returncode != 0:
        raise RuntimeError('searcher does not build against the working tree: ' + r.stderr[-1500:])
    return os.path.join(work, 'target', 'release', 'scnr-searcher')


def search(prop, seed, tier, repo, budget_ms=None):
    """returns (summary dict, failing case or None)"""
    fams = FAMILIES.get(prop)
    if not fams:
        return dict(note='no searcher family for ' + prop), None
    exe = build(repo)
    # quick: about 24 s in total, at least 8 s per family (a property with a single family gets the whole budget)
    budget = budget_ms or (40000 if tier == 'thorough' else max(8000, 24000 // max(1, len(fams))))
    summary = dict(families=fams, budget_ms_per_family=budget, runs=[],
                   bounds='<=4 modes, <=5 patterns per mode from a pool of 46, lookaheads from a pool of 18 (both polarities), 4 token-type numberings, inputs <=16 chars over {a,b,c,e-acute,euro,emoji,newline,x}, <=20 operations; class expressions to nesting depth 2; planted unsupported constructs to depth 3')
    for f in fams:
        r = subprocess.run([exe, f, str(seed or 1), str(budget)], stdout=subprocess.PIPE, stderr=subprocess.PIPE, text=True, timeout=budget / 1000 + 900)
        try:
            js = json.loads(r.stdout.strip().split('\n')[-1])
        except Exception:
            if r.returncode < 0 or r.returncode in (134, 139):
                # the process that runs the REAL crate was killed by a signal (abort / segfault: a stack overflow in a recursive build, an out-of-bounds
                # access in unsafe code): that is a violation of "never panics / the build is total" in itself; the case is re-run by seed
                summary['runs'].append(dict(family=f, found=True, died_with=r.returncode, stderr=r.stderr[-300:]))
                return summary, dict(family=f, case=dict(rerun=[f, str(seed or 1), str(budget)]),
                                     disagreement='the process running the real crate was killed (exit status %d) while family %s ran with seed %s: %s' % (r.returncode, f, seed or 1, r.stderr.strip()[-200:]))
            summary['runs'].append(dict(family=f, error=(r.stdout + r.stderr)[-500:]))
            continue
        summary['runs'].append(dict(family=f, tried=js.get('tried'), distinct=js.get('distinct'), found=js.get('found')))
        if js.get('found'):
            return summary, dict(family=f, case=js['case'], disagreement=js['disagreement'])
    return summary, None


def replay(prop, failing, repo):
    """True if the case passes now"""
    exe = build(repo)
    if isinstance(failing.get('case'), dict) and 'rerun' in failing['case']:
        r = subprocess.run([exe] + failing['case']['rerun'], stdout=subprocess.PIPE, stderr=subprocess.PIPE, text=True)
        died = r.returncode < 0 or r.returncode in (134, 139)
        print('re-run of the family with the same seed: exit status %d' % r.returncode)
        return not died
    r = subprocess.run([exe, 'replay', json.dumps(failing['case'])], stdout=subprocess.PIPE, stderr=subprocess.PIPE, text=True)
    print(r.stdout.strip())
    return r.returncode == 0
