#!/bin/bash
# usage: seed_eval2.sh <worktree-id> <prefix A|B|C> <seed-name> <prop>...   (round-2 layout: SEED/<prefix>_patch.diff etc.)
set -u
wtid=$1; wt=/tmp/seed_$1; pre=$2; name=$3; shift 3
cd $wt || exit 9
git checkout -q -- scnr/src; rm -f scnr/tests/seed_demo.rs
git apply SEED/${pre}_patch.diff || { echo "patch does not apply in worktree"; exit 8; }
cp SEED/${pre}_demo.rs scnr/tests/seed_demo.rs
cp SEED/${pre}_demo.rs SEED/demo.rs; cp SEED/${pre}_meta.txt SEED/meta.txt
/verif/tools/seed_eval.sh $wtid $name "$@"
cd $wt && git checkout -q -- scnr/src; rm -f scnr/tests/seed_demo.rs
