#!/usr/bin/env python3
"""regression of the machinery itself (DESIGN.md section 5): every seeded breaking change must be reported as VIOLATION by
at least one of the properties it breaks; every harmless change must NOT produce a VIOLATION (exit 0 or 2).
Applies each patch to /repo, runs the checks, undoes it. Writes evidence/selftest.json."""
import os, sys, json, glob, subprocess, time
VERIF = os.path.dirname(os.path.dirname(os.path.abspath(__file__)))
REPO = os.environ.get('VERIF_REPO', '/repo')
HARMLESS_PROPS = {'H1': ['C05'], 'H2': ['C06'], 'H3': ['C10'], 'H4': ['C04'], 'H5': ['C01'], 'H6': ['C09'],
                  'H11': ['C02'], 'H12': ['C03'], 'H13': ['C02'], 'H14': ['C05'], 'H15': ['C02'], 'H16': ['C08'], 'H17': ['C06'], 'H18': ['C11'], 'H19': ['C05'], 'H20': ['C13'],
                  'H21': ['C07'], 'H22': ['C06'], 'H23': ['C04'], 'H24': ['C08'], 'H25': ['C02'], 'H26': ['C08'], 'H27': ['C08'], 'H28': ['C08'], 'H29': ['C09'], 'H30': ['C09'],
                  'H31': ['C12'], 'H32': ['C06'],
                  'H33': ['C13'], 'H34': ['C13'], 'H35': ['C13'], 'H36': ['C08'], 'H37': ['C08'], 'H38': ['C08'], 'H39': ['C05'], 'H40': ['C11']}

def sh(cmd, **kw):
    return subprocess.run(cmd, shell=True, stdout=subprocess.PIPE, stderr=subprocess.STDOUT, text=True, **kw)

def run_checks(props):
    os.environ['VERIF_EVIDENCE_DIR'] = os.path.join(os.environ.get('VERIF_BUILD') or os.path.join(VERIF, 'build'), 'evidence_scratch')  # never overwrite the committed evidence with runs on patched trees
    out = {}
    for p in props:
        r = sh('cd %s && ./check %s' % (VERIF, p))
        first = [l for l in r.stdout.split('\n') if l.startswith(('VIOLATION', 'OK', 'UNDECIDED'))]  # KNOWN-FINDING lines come first and do not decide
        out[p] = dict(rc=r.returncode, line=(first[0] if first else r.stdout[-200:])[:300])
    return out

def main():
    assert sh('git -C %s status --porcelain' % REPO).stdout.strip() == '', '/repo is not clean'
    res = dict(breaking=[], harmless=[], at=time.strftime('%Y-%m-%d %H:%M:%S'))
    args = sys.argv[1:]
    outfile = os.path.join(VERIF, 'evidence', 'selftest.json')
    if args and args[0] == '--out':
        outfile, args = args[1], args[2:]
    if args and args[0] == '--merge':
        # merge partial results (written by parallel runs on separate scratch worktrees) into evidence/selftest.json
        res = dict(breaking=[], harmless=[], at=time.strftime('%Y-%m-%d %H:%M:%S'))
        for f in args[1:]:
            part = json.load(open(f))
            res['breaking'] += part['breaking']
            res['harmless'] += part['harmless']
        res['breaking'].sort(key=lambda b: b['seed'])
        json.dump(res, open(outfile, 'w'), indent=1)
        bad = [b['seed'] for b in res['breaking'] if not b['detected']] + [h['change'] for h in res['harmless'] if h['false_alarm']]
        print('%d breaking changes (%d detected), %d harmless changes (%d false alarms)' % (len(res['breaking']), sum(1 for b in res['breaking'] if b['detected']), len(res['harmless']), sum(1 for h in res['harmless'] if h['false_alarm'])))
        print('NOT DETECTED / FALSE ALARM:', bad)
        return 1 if bad else 0
    only = args
    for d in sorted(glob.glob(os.path.join(VERIF, 'seeded', 'C*'))):
        name = os.path.basename(d)
        if only and name not in only:
            continue
        meta = json.load(open(os.path.join(d, 'meta.json')))
        props = meta['breaks']
        assert sh('git -C %s apply %s/patch.diff' % (REPO, d)).returncode == 0, name
        try:
            out = run_checks(props)
        finally:
            sh('git -C %s checkout -- .' % REPO)
        caught = [p for p, o in out.items() if o['rc'] == 1 and o['line'].startswith('VIOLATION')]
        res['breaking'].append(dict(seed=name, props=props, caught_by=caught, results=out, detected=bool(caught)))
        print('%-50s %s' % (name, 'DETECTED by ' + ','.join(caught) if caught else 'MISSED ' + json.dumps(out)))
    for pf in sorted(glob.glob(os.path.join(VERIF, 'seeded', 'harmless', 'H*_patch.diff'))):
        name = os.path.basename(pf).split('_')[0]
        if only and name not in only:
            continue
        assert sh('git -C %s apply %s' % (REPO, pf)).returncode == 0, name
        try:
            out = run_checks(HARMLESS_PROPS.get(name, ['C01']))
        finally:
            sh('git -C %s checkout -- .' % REPO)
        alarm = [p for p, o in out.items() if o['rc'] == 1]
        res['harmless'].append(dict(change=name, results=out, false_alarm=bool(alarm)))
        print('%-50s %s' % ('harmless ' + name, 'FALSE ALARM ' + json.dumps(out) if alarm else 'no alarm (%s)' % ', '.join('%s rc=%d' % (p, o['rc']) for p, o in out.items())))
    json.dump(res, open(outfile, 'w'), indent=1)
    bad = [b for b in res['breaking'] if not b['detected']] + [h for h in res['harmless'] if h['false_alarm']]
    return 1 if bad else 0

if __name__ == '__main__':
    sys.exit(main())
