#!/usr/bin/env python3
"""confirm a change delivered by a sub-agent and store it as seeded/<id>/ (patch.diff, demo.rs, meta.json).
usage: tools/store_seed.py <scratch worktree> <delivery dir (patch.diff, demo.rs, meta.json)> <PROP>[,PROP..] [--name NAME]
In the scratch worktree (never /repo): (1) the patch applies, (2) the whole existing suite passes with it, (3) the demonstration fails with it,
(4) the demonstration passes without it, (5) every named property's check is run against the patched tree (VERIF_REPO=<worktree>; same as
`git -C /repo apply patch.diff; ./check <prop>; git -C /repo checkout -- .`). Stored only if 1-4 hold; the verdicts of (5) are recorded, not required."""
import os, sys, json, re, subprocess, shutil
VERIF = os.path.dirname(os.path.dirname(os.path.abspath(__file__)))
FLAKY = ('test_find_from', 'test_find_matches_impl', 'test_try_from_patterns', 'test_generate_dot_files', 'test_pathological_regular_expressions_dfa')


def sh(cmd, **kw):
    return subprocess.run(cmd, shell=True, stdout=subprocess.PIPE, stderr=subprocess.STDOUT, text=True, **kw)


def results(out):
    return ' '.join(l.strip() + ' ' for l in out.split('\n') if l.startswith('test result:'))


def main():
    wt, deliv, props = sys.argv[1], sys.argv[2], sys.argv[3].split(',')
    name = os.path.basename(deliv.rstrip('/'))
    if '--name' in sys.argv:
        name = sys.argv[sys.argv.index('--name') + 1]
    sid = '%s_%s' % (props[0], name)
    patch = os.path.abspath(os.path.join(deliv, 'patch.diff'))
    demo = os.path.abspath(os.path.join(deliv, 'demo.rs'))
    meta = json.load(open(os.path.join(deliv, 'meta.json')))
    tdemo = os.path.join(wt, 'scnr', 'tests', 'seed_demo.rs')
    sh('git -C %s checkout -- . && rm -f %s' % (wt, tdemo))
    r = sh('git -C %s apply %s' % (wt, patch))
    if r.returncode:
        print('REJECTED %s: patch does not apply: %s' % (sid, r.stdout[-300:])); return 1
    try:
        r = sh('cd %s && cargo test --workspace --no-fail-fast --offline 2>&1' % wt)
        failed = [l for l in r.stdout.split('\n') if re.match(r'^test .* FAILED$', l.strip()) and not any(f in l for f in FLAKY)]
        suite = results(r.stdout)
        if failed or 'error: could not compile' in r.stdout or 'error[' in r.stdout:
            print('REJECTED %s: suite not green with the change: %s' % (sid, failed or r.stdout[-400:])); return 1
        shutil.copy(demo, tdemo)
        r1 = sh('cd %s && cargo test --offline -p scnr --test seed_demo 2>&1' % wt)
        with_change = results(r1.stdout)
        if r1.returncode == 0 or 'FAILED' not in with_change:
            print('REJECTED %s: demonstration does not fail with the change: %s' % (sid, r1.stdout[-400:])); return 1
        os.remove(tdemo)
        env = 'VERIF_REPO=%s VERIF_BUILD=/tmp/vbuild_%s VERIF_EVIDENCE_DIR=/tmp/vbuild_%s/evidence_scratch' % (wt, os.path.basename(wt), os.path.basename(wt))
        checks = []
        for p in props:
            rc = sh('cd %s && %s ./check %s' % (VERIF, env, p))
            lines = [l for l in rc.stdout.split('\n') if l.startswith(('VIOLATION', 'OK', 'UNDECIDED', 'NOTE'))]
            checks.append('%s: %s' % (p, '|'.join(l[:400] for l in lines[:2]) + '|'))
            print('   check', checks[-1][:300])
    finally:
        sh('git -C %s checkout -- . ' % wt)
    shutil.copy(demo, tdemo)
    r2 = sh('cd %s && cargo test --offline -p scnr --test seed_demo 2>&1' % wt)
    os.remove(tdemo)
    without = results(r2.stdout)
    if r2.returncode != 0:
        print('REJECTED %s: demonstration does not pass without the change: %s' % (sid, r2.stdout[-400:])); return 1
    d = os.path.join(VERIF, 'seeded', sid)
    if os.path.isdir(d) and open(os.path.join(d, 'patch.diff')).read() != open(patch).read():
        # never overwrite a stored change that happens to have the same name
        sid += '_2'
        d = os.path.join(VERIF, 'seeded', sid)
    os.makedirs(d, exist_ok=True)
    shutil.copy(patch, os.path.join(d, 'patch.diff'))
    shutil.copy(demo, os.path.join(d, 'demo.rs'))
    m = dict(seed=sid, breaks=props, existing_suite_with_change=suite, demo_with_change=with_change, demo_without_change=without, checks_with_change=checks,
             ran=['cargo test --workspace --no-fail-fast --offline (scratch worktree, change applied, demo not present)',
                  'cargo test --offline -p scnr --test seed_demo (with / without the change)',
                  'VERIF_REPO=<scratch worktree with the change> ./check <prop> (same as: git -C /repo apply patch.diff; ./check <prop>; git -C /repo checkout -- .)'],
             needs=meta.get('needs', ''), what_changed=meta.get('what_changed', ''), where=meta.get('where', ''), why=meta.get('why', ''))
    json.dump(m, open(os.path.join(d, 'meta.json'), 'w'), indent=1)
    det = any('VIOLATION' in c for c in checks)
    print('%s %s' % ('STORED+DETECTED' if det else 'STORED+MISSED', sid))
    return 0


if __name__ == '__main__':
    sys.exit(main())
