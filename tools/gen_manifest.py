#!/usr/bin/env python3
"""writes MANIFEST.json from tools/registry.py (claimed checks) and the not-applicable table below"""
import json, os, sys
HERE = os.path.dirname(os.path.abspath(__file__))
sys.path.insert(0, HERE)
import registry

VERIF = os.path.dirname(HERE)
ALL = ['C%02d' % i for i in range(1, 19)]

checks = []
for pid in ALL:
    if pid not in registry.PROPS:
        continue
    p = registry.PROPS[pid]
    checks.append(dict(
        property_id=pid,
        quick_cmd='./check %s --tier quick' % pid,
        thorough_cmd='./check %s --tier thorough' % pid,
        evidence_file='/verif/evidence/%s.json' % pid,
        replay_cmd_template='./check %s --replay {path}' % pid,
        engine='verus',
        level_claimed=dict(category='proof', text=p['level_text'], design_ref=p['design_ref']),
        level_note=p['level_note'],
        technique=p['technique'],
    ))
na = [dict(property_id=pid, reason=registry.NOT_APPLICABLE[pid]) for pid in ALL if pid not in registry.PROPS]
m = dict(
    version=1,
    setup_cmd='python3 tools/setup.py',
    hooks=dict(
        guard='scnr_verif',
        enable='RUSTFLAGS="--cfg scnr_verif" (replay binary only; the Verus checks read /repo sources directly and need no hook)',
        baseline_off_cmd='cd /repo && cargo test --workspace --no-fail-fast --offline',
        source_commits=registry.HOOK_COMMITS,
        add_only=True,
    ),
    engines=[dict(name='verus', path='/verif/tools/check.py', serves_properties=sorted(registry.PROPS),
                  kind_free_text='contract-based deductive verification: functions extracted mechanically from /repo on every run (tools/extract.py), contracts and ghost text from units/*/unit.py, discharged by Verus 0.2026.09.13 + Z3')],
    checks=checks,
    not_applicable=na,
    notes='exit 2 = undecided (tool-side problem: lost anchor, unsupported construct, resource limit); it never prints VIOLATION. Fixes of genuine defects in /repo: see known_findings.txt.',
)
json.dump(m, open(os.path.join(VERIF, 'MANIFEST.json'), 'w'), indent=1)
print('MANIFEST.json: %d checks, %d not applicable' % (len(checks), len(na)))
