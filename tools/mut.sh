#!/bin/sh
export VERIF_EVIDENCE_DIR=/verif/build/evidence_scratch
# usage: mut.sh <prop> <file-in-repo> <sed-expr>   -- applies a mutation to /repo, runs the check, restores
prop=$1; f=$2; expr=$3
cd /repo && sed -i "$expr" "$f" && git diff --stat | head -3
if git diff --quiet; then echo "MUTATION DID NOT APPLY"; exit 9; fi
cd /verif && ./check $prop; rc=$?
git -C /repo checkout -- .
echo "rc=$rc"
