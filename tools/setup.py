#!/usr/bin/env python3
"""offline setup: build the external crates Verus needs (from the cargo registry sources) and warm up Verus"""
import sys, os
sys.path.insert(0, os.path.dirname(os.path.abspath(__file__)))
import check
check.ensure_externs(['rustc_hash'])
try:
    check.ensure_externs(['regex_syntax'])
except Exception as e:
    print('note: regex_syntax not built: %s' % e)
try:
    import searcher
    searcher.build(os.environ.get('VERIF_REPO', '/repo'))  # the replay searcher / bounded stand-in (cargo, offline); rebuilt by the checks when /repo changes
except Exception as e:
    print('note: searcher not built: %s' % e)
print('setup ok')
