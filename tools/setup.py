#!/usr/bin/env python3
"""offline setup: build the external crates Verus needs (from the cargo registry sources) and warm up Verus"""
import sys, os
sys.path.insert(0, os.path.dirname(os.path.abspath(__file__)))
import check
check.ensure_externs(['rustc_hash'])
try:
    check.ensure_externs(['regex_syntax'])
except Exception as e:
    print('note: regex_syntax not built: %s' % e)
print('setup ok')
