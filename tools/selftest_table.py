#!/usr/bin/env python3
"""markdown summary of evidence/selftest.json (for DESIGN.md section 5)"""
import json, os
V = os.path.dirname(os.path.dirname(os.path.abspath(__file__)))
s = json.load(open(os.path.join(V, 'evidence', 'selftest.json')))
print('| seeded change | breaks | reported by (v = named Verus obligation, s = bounded stand-in on the real code) |')
print('|---|---|---|')
nv = ns = nm = 0
for b in s['breaking']:
    how = []
    for p, o in b['results'].items():
        if o['rc'] == 1 and o['line'].startswith('VIOLATION'):
            how.append('%s:%s' % (p, 's' if 'bounded-stand-in' in o['line'] else 'v'))
        elif o['rc'] == 2:
            how.append('%s:undecided' % p)
        else:
            how.append('%s:ok' % p)
    if not b['detected']:
        nm += 1
    elif any(h.endswith(':v') for h in how):
        nv += 1
    else:
        ns += 1
    print('| `%s` | %s | %s%s |' % (b['seed'], ', '.join(b['props']), ', '.join(how), '' if b['detected'] else ' **NOT DETECTED**'))
print()
print('%d changes: %d reported by a verifier obligation (for at least one property), %d only by the stand-in, %d not detected.' % (len(s['breaking']), nv, ns, nm))
print()
print('| harmless change | checked under | result |')
print('|---|---|---|')
for h in s['harmless']:
    print('| %s | %s | %s |' % (h['change'], ', '.join(h['results']), '; '.join('rc=%d' % o['rc'] for o in h['results'].values()) + (' **FALSE ALARM**' if h['false_alarm'] else '')))
