#!/bin/bash
# usage: seed_eval4.sh <worktree> <agent-seed-dir> <stored-name> <prop>...
# confirms a seeded change in its scratch worktree (suite green with it, demo fails with it / passes without it), stores it under
# /verif/seeded/<stored-name>, and runs the checks of the given properties against the worktree WITH the change (VERIF_REPO=<worktree>, scratch build dir).
# No git stash (shared between worktrees).
set -u
wt=$1; sd=$2; name=$3; shift 3; props="$@"
out=/verif/seeded/$name; mkdir -p $out
cd $wt || exit 9
git checkout -q -- . ; rm -f scnr/tests/seed_demo.rs
git apply $sd/patch.diff || { echo "PATCH DOES NOT APPLY"; exit 8; }
cp $sd/patch.diff $out/patch.diff; cp $sd/demo.rs $out/demo.rs; cp $sd/meta.json $out/agent_meta.json
export CARGO_TARGET_DIR=$wt/target CARGO_NET_OFFLINE=true
suite=$(cargo test --workspace --no-fail-fast --offline 2>&1 | grep -E "^test result" | tr '\n' ' ')
cp $sd/demo.rs scnr/tests/seed_demo.rs
d1=$(cargo test --offline -p scnr --test seed_demo 2>&1 | grep -E "^test result" | tr '\n' ' ')
res=""
export VERIF_REPO=$wt VERIF_BUILD=/tmp/sb_$(basename $wt) VERIF_EVIDENCE_DIR=/tmp/sb_$(basename $wt)/evidence_scratch
rm -f scnr/tests/seed_demo.rs
for p in $props; do
  o=$(cd /verif && ./check $p 2>&1 | grep -E "^(VIOLATION|OK|UNDECIDED|NOTE)" | head -4 | cut -c1-400 | tr '\n' '|'); res="$res$p: $o\n"
done
git checkout -q -- scnr/src
cp $sd/demo.rs scnr/tests/seed_demo.rs
d2=$(cargo test --offline -p scnr --test seed_demo 2>&1 | grep -E "^test result" | tr '\n' ' ')
rm -f scnr/tests/seed_demo.rs
python3 - "$name" "$suite" "$d1" "$d2" "$res" "$props" <<'PY'
import sys, json, os
name, suite, d1, d2, res, props = sys.argv[1:7]
am = {}
try: am = json.load(open('/verif/seeded/%s/agent_meta.json' % name))
except Exception as e: am = {'unparsed': open('/verif/seeded/%s/agent_meta.json' % name).read()}
meta = dict(seed=name, breaks=props.split(), existing_suite_with_change=suite, demo_with_change=d1, demo_without_change=d2,
            checks_with_change=[l for l in res.replace('\\n', '\n').strip().split('\n')],
            ran=['cargo test --workspace --no-fail-fast --offline (scratch worktree, change applied, demo not present)',
                 'cargo test --offline -p scnr --test seed_demo (with / without the change)',
                 'VERIF_REPO=<scratch worktree with the change> ./check <prop> (same as: git -C /repo apply patch.diff; ./check <prop>; git -C /repo checkout -- .)'],
            needs=am.get('needs_to_manifest', ''), what_changed=am.get('what_changed', ''), where=am.get('file_and_function', ''), why=am.get('why_it_breaks_the_property', ''))
json.dump(meta, open('/verif/seeded/%s/meta.json' % name, 'w'), indent=1)
os.remove('/verif/seeded/%s/agent_meta.json' % name)
ok = ('FAILED' in d1 or 'failed' in d1 and ' 0 failed' not in d1) and 'ok.' in d2 and 'FAILED' not in suite
print('%-55s confirmed=%s' % (name, ok))
print('   suite:', suite[:200]); print('   demo with:', d1[:100], '| without:', d2[:100])
for l in meta['checks_with_change']: print('   ', l[:330])
PY
