"""Mechanical extractor: copies items of /repo byte-for-byte into a Verus file and applies the rewrite
rules of DESIGN.md section 2.1 (E1..E9) plus ghost insertions taken from a unit description.

Exit policy: every problem found here (lost anchor, missing item, unsupported shape) raises
ExtractError -> the driver reports *undecided* (exit 2), never a violation.
"""
import os
import re
from rstok import lex, match_brackets, Pattern, OPEN, CLOSE, LexError


class ExtractError(Exception):
    pass


# ----------------------------------------------------------------------------- unit description DSL
class Edit:
    pass


class Ins(Edit):
    """ghost-only insertion. where: 'before' (before first token of the match), 'after' (after the last
    token of the match), 'after_stmt' (after the end of the statement that starts at the match),
    'body_start', 'body_end' (pattern ignored)."""

    def __init__(self, where, pattern, text, occ=1, label=None):
        self.where, self.pattern, self.text, self.occ, self.label = where, pattern, text, occ, label


class ForLoop(Edit):
    """rule E1. pattern must match from `for` up to and including the `{` that opens the body."""

    def __init__(self, pattern, it, spec, occ=1, into_iter=True, place=None, label=None, pre='', body_pre='', by_ref=True, wrap=None, via=None):
        # pre: ghost text between the iterator binding and `loop`; body_pre: ghost text at the start of the
        # loop body, before `let Some(p) = it.next() else { break };`
        self.pattern, self.it, self.spec, self.occ = pattern, it, spec, occ
        self.into_iter, self.place, self.label, self.pre, self.body_pre = into_iter, place, label, pre, body_pre
        self.by_ref = by_ref  # place given as `X.by_ref()`; False: the iterated expression is a `&mut I` variable itself
        self.via = via  # rule E1: `for p in &coll` iterates `coll.iter()` (std: IntoIterator for &Collection is iter()); template with %s for the iterated expression
        self.wrap = wrap  # rule U5: `for p in E` iterates `WRAP(E)`, WRAP an external_body wrapper around E.into_iter() carrying the trusted std contract


class LoopSpec(Edit):
    """invariants for `loop {` / `while c {`: pattern matches from the keyword to the `{`."""

    def __init__(self, pattern, spec, occ=1, label=None):
        self.pattern, self.spec, self.occ, self.label = pattern, spec, occ, label


class Closure(Edit):
    """rule E3: annotate a closure header. pattern matches the `|params|` tokens (and nothing else)."""

    def __init__(self, pattern, header, occ=1):
        self.pattern, self.header, self.occ = pattern, header, occ


class Replace(Edit):
    """site-specific instance of a rewrite rule; template may use $name captures of the pattern."""

    def __init__(self, rule, pattern, template, occ=1, why=''):
        self.rule, self.pattern, self.template, self.occ, self.why = rule, pattern, template, occ, why


class MatchFnClosures(Edit):
    """rule E3 for the closures handed to `MatchFn::new`: the parameter is typed, `x.inner()(e)` is read as `x.__call(e)`,
    and the closure's `ensures` is generated from its own body (`x.__call(e)` -> `x.sem()(e)`): self-generated condition
    over straight-line boolean code. Closures that call anything else are left alone (they must be covered otherwise).
    ctor: the constructor the closures are handed to (`MatchFn :: new`, or `Self :: new` inside `impl .. for MatchFunction`)."""

    def __init__(self, ctor='MatchFn :: new', calls=None):
        self.ctor = ctor
        self.calls = calls or {}  # char methods a closure body may call -> the spec predicate that std contract gives them (`ch.is_numeric()` -> `spec_is_numeric(ch)`)


class Wrap(Edit):
    """a rewrite of a block-carrying construct whose body is edited by OTHER edits: `pattern` (must end with the `{` that opens the body)
    is replaced by `open_text`; the matching `}` together with the next `close_tail` tokens (e.g. `)` `;` of `.for_each(|x| { .. });`) is
    replaced by `close_text`. The body in between is left to the other edits."""

    def __init__(self, rule, pattern, open_text, close_text, close_tail=0, occ=1, why=''):
        self.rule, self.pattern, self.open_text, self.close_text, self.close_tail, self.occ, self.why = rule, pattern, open_text, close_text, close_tail, occ, why


class Tail(Edit):
    """rule E6: `e` (tail expression of the function body) -> `let __res = e; <ghost> __res`"""

    def __init__(self, text, label=None):
        self.text, self.label = text, label


class Fn:
    def __init__(self, file, impl, name, ret=None, spec='', edits=(), generics_dyn=True, props=(), attrs='',
                 external_body=False, sig_replace=None, trusted_reason=None, as_inherent=False, impl_as=None, qual_as=None, rename=None):
        self.file, self.impl, self.name, self.ret, self.spec = file, impl, name, ret, spec
        self.edits = list(edits)
        self.generics_dyn = generics_dyn
        self.props = list(props)
        self.attrs = attrs
        self.external_body = external_body
        self.sig_replace = sig_replace  # list of (pattern, template) applied to the signature only (rule E2)
        self.trusted_reason = trusted_reason
        self.impl_as = impl_as  # emit into `impl <impl_as>` as an inherent method (monomorphisation of a generic/trait impl, rule E9)
        self.qual_as = qual_as
        self.rename = rename  # emitted function name (trait impls of the same trait for different types become distinct inherent fns, rule E9)
        self.hide = ()  # spec functions hidden inside this function's body (proof engineering only)
        self.as_inherent = as_inherent  # method of `impl Trait for T` emitted as inherent method of T (call syntax unchanged)
        self.extra_generics = []  # rule E2: type parameters the function needs because a type it mentions became generic (`Scanner` -> `Scanner<M>`)

    @property
    def qual(self):
        if self.qual_as:
            return self.qual_as + '::' + (self.rename or self.name)
        impl = self.impl
        if impl and self.as_inherent and ' for ' in impl:
            impl = impl.split(' for ')[-1].strip()
        return (impl + '::' if impl else '') + self.name


class Struct:
    def __init__(self, file, name, derive=None, extra='', dyn_param=None, drop_fields=(), structural=True, require_derive=()):
        # dyn_param: name of the type parameter that replaces a field of type `Arc<dyn Fn..>` (rule E2)
        self.file, self.name, self.derive, self.extra, self.dyn_param = file, name, derive, extra, dyn_param
        self.drop_fields = drop_fields
        self.structural = structural
        # derives that MUST be present on the real item and must not be replaced by a hand-written impl in the same file
        self.require_derive = require_derive


class Enum:
    def __init__(self, file, name, derive=None, strip_attrs=False, default_features=()):
        self.file, self.name, self.derive = file, name, derive
        # rule E4: attributes on variants / fields (`#[error(..)]`, `#[from]`) are dropped; a variant gated by `#[cfg(feature = "F")]` is dropped when F is not among
        # the crate's default features (the configuration the properties are about), kept otherwise
        self.strip_attrs, self.default_features = strip_attrs, default_features


class CastSites:
    """self-generated obligations: every `<operand> as <Alias>` in the file (outside #[cfg(test)] modules) must be lossless
    for operands up to `bound`. operands: operand text -> its type. A site whose operand is not listed -> undecided."""

    def __init__(self, file, aliases, operands, bound='u32::MAX', props=()):
        self.file, self.aliases, self.operands, self.bound, self.props = file, aliases, operands, bound, props


class IdMacro:
    """rule E7: textual expansion of impl_id!(Name, Base) restricted to the members listed."""

    def __init__(self, file, name, members=('new', 'as_usize', 'id'), index_for=('Vec',), specs=None, with_from=False):
        self.file, self.name, self.members, self.index_for, self.specs = file, name, members, index_for, specs or {}
        self.with_from = with_from


class Raw:
    """hand-written text (trusted bridging code or spec); origin label shows up in diagnostics."""

    def __init__(self, text, label='raw'):
        self.text, self.label = text, label


class SourceCheck:
    """a mechanical condition on the real source text that a trusted model relies on; func(repo) raises ExtractError (-> unit undecided) when it no longer holds"""

    def __init__(self, label, func):
        self.label, self.func = label, func


class RawFile:
    def __init__(self, path, label=None):
        self.path, self.label = path, label or os.path.basename(path)


# ----------------------------------------------------------------------------- source file model
class Src:
    def __init__(self, repo, rel):
        self.rel = rel
        self.path = os.path.join(repo, rel)
        if not os.path.exists(self.path):
            raise ExtractError('anchored file missing: %s' % rel)
        self.text = open(self.path, encoding='utf-8').read()
        try:
            self.toks = lex(self.text)
            self.pair = match_brackets(self.toks)
        except LexError as e:
            raise ExtractError('cannot lex %s: %s' % (rel, e))

    def line_of(self, off):
        return self.text.count('\n', 0, off) + 1


ITEM_KW = {'fn', 'impl', 'struct', 'enum', 'mod', 'trait', 'use', 'const', 'static', 'type', 'macro_rules', 'union',
           'extern'}


def split_items(src, lo, hi):
    """yield (start_tok, kw_tok, end_tok_exclusive) of the items in toks[lo:hi] (one nesting level)"""
    toks, pair = src.toks, src.pair
    i = lo
    out = []
    while i < hi:
        start = i
        # attributes
        while i < hi and toks[i].text == '#':
            j = i + 1
            if toks[j].text == '!':
                j += 1
            if toks[j].text != '[':
                raise ExtractError('bad attribute in %s' % src.rel)
            i = pair[j] + 1
        # visibility and qualifiers
        while i < hi and toks[i].text in ('pub', 'unsafe', 'async', 'default'):
            i += 1
            if i < hi and toks[i - 1].text == 'pub' and toks[i].text == '(':
                i = pair[i] + 1
        if i < hi and toks[i].text == 'const' and i + 1 < hi and toks[i + 1].text in ('fn', 'unsafe'):
            i += 1
        if i >= hi:
            break
        kw = i
        k = toks[i].text
        if k not in ITEM_KW:
            # macro invocation item: name ! ( .. ) ;
            if toks[i].kind == 'id' and i + 1 < hi and toks[i + 1].text == '!':
                j = i + 2
                if toks[j].kind == 'id':
                    j += 1
                e = pair[j] + 1
                if e < hi and toks[e].text == ';':
                    e += 1
                out.append((start, kw, e))
                i = e
                continue
            raise ExtractError('cannot parse item at %s:%d (%r)' % (src.rel, src.line_of(toks[i].s), k))
        # find end
        j = i + 1
        end = None
        while j < hi:
            t = toks[j].text
            if t == ';':
                end = j + 1
                break
            if t == '{':
                c = pair[j]
                if k in ('use', 'const', 'static', 'type'):
                    j = c + 1
                    continue
                end = c + 1
                break
            if t in ('(', '['):
                j = pair[j] + 1
                continue
            j += 1
        if end is None:
            raise ExtractError('unterminated item at %s:%d' % (src.rel, src.line_of(toks[i].s)))
        out.append((start, kw, end))
        i = end
    return out


def norm(s):
    return re.sub(r'\s+', '', s)


def _norm_impl_header(h):
    """impl generics, lifetime arguments and where clauses do not take part in the comparison; type arguments do"""
    h = h.strip()
    if h.startswith('<'):
        d = 0
        for i, c in enumerate(h):
            if c == '<':
                d += 1
            elif c == '>':
                d -= 1
                if d == 0:
                    h = h[i + 1:]
                    break
    h = re.sub(r'\bwhere\b.*', '', h, flags=re.S)
    h = re.sub(r"<\s*'\w+\s*>", '', h)
    h = re.sub(r"'\w+\s*,\s*", '', h)
    return norm(h)


def find_impl(src, header):
    """header e.g. 'CompiledDfa' or 'ScannerModeSwitcher for ScannerImpl' (generics ignored)"""
    res = []
    for (s, kw, e) in split_items(src, 0, len(src.toks)):
        if src.toks[kw].text != 'impl':
            continue
        j = kw + 1
        while src.toks[j].text != '{':
            j = src.pair[j] + 1 if src.toks[j].text in OPEN else j + 1
        htxt = src.text[src.toks[kw + 1].s:src.toks[j].s]
        if _norm_impl_header(htxt) == _norm_impl_header(header):
            res.append((kw, j, src.pair[j], htxt.strip()))
    return res


def find_fn(src, impl, name):
    """returns (start_tok (after attrs), fn_kw_tok, body_open_tok, body_close_tok, impl_header_text)"""
    cands = []
    if impl:
        impls = find_impl(src, impl)
        if not impls:
            raise ExtractError('impl %s not found in %s' % (impl, src.rel))
        for (kw, o, c, htxt) in impls:
            for (s, k, e) in split_items(src, o + 1, c):
                if src.toks[k].text == 'fn' and src.toks[k + 1].text == name:
                    cands.append((s, k, e, htxt))
    else:
        for (s, k, e) in split_items(src, 0, len(src.toks)):
            if src.toks[k].text == 'fn' and src.toks[k + 1].text == name:
                cands.append((s, k, e, None))
    if len(cands) != 1:
        raise ExtractError('%d definitions of fn %s::%s in %s' % (len(cands), impl, name, src.rel))
    s, k, e, htxt = cands[0]
    if src.toks[e - 1].text != '}':
        raise ExtractError('fn %s has no body' % name)
    bo = src.pair[e - 1]
    return s, k, bo, e - 1, htxt


GHOST_STARTS = ('proof', 'assert', 'broadcast', 'reveal', 'let ghost', 'assume_NOT_ALLOWED')


def check_ghost(text, where):
    """inserted text must be a sequence of ghost statements"""
    try:
        toks = lex(text)
        pair = match_brackets(toks)
    except LexError as e:
        raise ExtractError('ghost text does not lex (%s): %s' % (where, e))
    i = 0
    n = len(toks)
    while i < n:
        t = toks[i].text
        if t == 'proof' and toks[i + 1].text == '{':
            i = pair[i + 1] + 1
            continue
        if t == 'let' and toks[i + 1].text == 'ghost':
            pass
        elif t in ('assert', 'broadcast', 'reveal', 'hide'):
            pass
        else:
            raise ExtractError('non-ghost statement in insertion (%s): %r' % (where, text[toks[i].s:toks[i].s + 40]))
        # to the ';' at depth 0
        j = i
        while j < n and toks[j].text != ';':
            j = pair[j] + 1 if toks[j].text in OPEN else j + 1
        if j >= n:
            # `assert(..) by { }` without ';' at the end
            break
        i = j + 1
    for t in toks:
        if t.kind == 'id' and t.text in ('assume', 'admit'):
            raise ExtractError('assume/admit in ghost insertion (%s)' % where)


def stmt_end(src, i, hi):
    """token index (exclusive) of the end of the statement starting at token i"""
    toks, pair = src.toks, src.pair
    j = i
    blocky = toks[i].text in ('if', 'match', 'for', 'while', 'loop', 'unsafe', '{')
    while j < hi:
        t = toks[j].text
        if t == ';':
            return j + 1
        if t == '{':
            c = pair[j]
            nxt = toks[c + 1].text if c + 1 < hi else None
            if blocky and nxt not in ('else', '.', '?', ';'):
                return c + 1
            j = c + 1
            continue
        if t in ('(', '['):
            j = pair[j] + 1
            continue
        if t in CLOSE:
            return j
        j += 1
    return hi


def body_tail_start(src, bo, bc):
    """token index where the tail expression of block (bo, bc) starts, or None"""
    toks = src.toks
    i = bo + 1
    last = None
    while i < bc:
        e = stmt_end(src, i, bc)
        last = (i, e)
        i = e
    if last is None:
        return None
    s, e = last
    if toks[e - 1].text == ';':
        return None
    return s


class Out:
    """output text with line origins"""

    def __init__(self):
        self.chunks = []  # (text, origin)

    def add(self, text, origin):
        if not text.endswith('\n'):
            text += '\n'
        self.chunks.append((text, origin))

    def render(self):
        text = ''.join(c for c, _ in self.chunks)
        origins = []
        for c, o in self.chunks:
            origins.extend([(o, i) for i in range(c.count('\n'))])
        return text, origins


class Extractor:
    def __init__(self, repo):
        self.repo = repo
        self.srcs = {}
        self.rewrites = []  # log: dict(rule, site, original, replacement)
        self.fn_texts = {}  # qual -> extracted text (for hashing)
        self.aliases_done = set()
        self.theorem_canaries = []  # names of spec-level theorems that received a vacuity canary (canary builds only)

    def src(self, rel):
        if rel not in self.srcs:
            self.srcs[rel] = Src(self.repo, rel)
        return self.srcs[rel]

    def log(self, rule, site, original, replacement):
        self.rewrites.append(dict(rule=rule, site=site, original=original, replacement=replacement))

    # ------------------------------------------------------------------ pattern location
    def locate(self, src, lo, hi, pattern, occ, what):
        try:
            p = Pattern(pattern)
        except (ValueError, LexError) as e:
            raise ExtractError('bad pattern %r: %s' % (pattern, e))
        ms = p.find_all(src.toks, src.pair, lo, hi)
        if len(ms) < occ:
            raise ExtractError('lost anchor in %s: pattern %r occurrence %d not found (%d matches)' % (what, pattern, occ, len(ms)))
        return ms[occ - 1]

    # ------------------------------------------------------------------ function extraction
    def extract_fn(self, f, canary=False):
        src = self.src(f.file)
        s, k, bo, bc, htxt = find_fn(src, f.impl, f.name)
        toks, text = src.toks, src.text
        what = '%s (%s)' % (f.qual, f.file)
        edits = []  # (start_off, end_off, replacement, tag)

        # ---- visibility (E4): from item start (after attributes) to fn keyword
        # keep `const`/`unsafe` qualifiers, replace visibility by pub (inherent impls / free fns only)
        quals = [t.text for t in toks[s:k] if t.text in ('const', 'unsafe')]
        # find first non-attribute token
        i = s
        while toks[i].text == '#':
            i = src.pair[i + 1] + 1
        is_trait_impl = htxt is not None and re.search(r'\bfor\b', htxt) is not None
        if f.impl_as:
            self.log('E9', what, 'impl ' + (htxt or ''), 'inherent method in impl ' + f.impl_as)
            htxt = f.impl_as
            is_trait_impl = False
        if is_trait_impl and f.as_inherent:
            self.log('E9', what, 'impl ' + htxt, 'inherent method of ' + htxt.split(' for ')[-1].strip())
            htxt = htxt.split(' for ')[-1].strip()
            is_trait_impl = False
        vis = '' if is_trait_impl else 'pub '
        head_start = toks[i].s
        edits.append((head_start, toks[k].s, vis + ''.join(q + ' ' for q in quals), 'E4'))

        # ---- signature
        sig_lo, sig_hi = k, bo  # tokens of `fn name ... ` up to `{`
        generics = []
        if f.generics_dyn:
            # E2: &(dyn Fn(..) -> R + 'static ...) -> &F
            p = Pattern('& ( dyn $b )')
            n = 0
            for (ms, me, caps) in p.find_all(toks, src.pair, sig_lo, sig_hi):
                a, b = caps['b']
                bound = text[toks[a].s:toks[b - 1].e]
                # strip auto-trait / lifetime bounds
                bound2 = re.sub(r"\+\s*('static|Send|Sync)\b", '', bound).strip()
                gname = 'F%d' % n if n else 'F'
                n += 1
                generics.append('%s: %s' % (gname, bound2))
                edits.append((toks[ms].s, toks[me - 1].e, '&' + gname, 'E2'))
                self.log('E2', what, text[toks[ms].s:toks[me - 1].e], '&%s  [%s: %s]' % (gname, gname, bound2))
        generics += list(getattr(f, 'extra_generics', []))
        if f.sig_replace:
            for (pat, tmpl) in f.sig_replace:
                ms, me, caps = self.locate(src, sig_lo, sig_hi, pat, 1, what + ' signature')
                rep = self.subst(src, tmpl, caps)
                edits.append((toks[ms].s, toks[me - 1].e, rep, 'E2'))
                self.log('E2', what, text[toks[ms].s:toks[me - 1].e], rep)
        if f.rename:
            edits.append((toks[k + 1].s, toks[k + 1].e, f.rename, 'E9'))
        if canary:
            edits.append((toks[k + 1].e, toks[k + 1].e, '__canary', 'canary'))
        if generics:
            name_tok = toks[k + 1]
            if toks[k + 2].text == '<':
                edits.append((toks[k + 2].e, toks[k + 2].e, ', '.join(generics) + ', ', 'E2'))
            else:
                edits.append((name_tok.e, name_tok.e, '<' + ', '.join(generics) + '>', 'E2'))
        # return type naming + spec clauses
        # find `->` at depth 0 of signature after the parameter list
        par = k + 2
        while toks[par].text != '(':
            par += 1
        pclose = src.pair[par]
        arrow = None
        j = pclose + 1
        while j < bo:
            if toks[j].text == '->':
                arrow = j
                break
            if toks[j].text == 'where':
                break
            j += 1
        spec = f.spec.strip()
        if canary:
            spec = add_false_ensures(spec)
        where_tok = None
        j = pclose + 1
        while j < bo:
            if toks[j].text == 'where':
                where_tok = j
                break
            j += 1
        ret_end_tok = (where_tok if where_tok is not None else bo)
        if arrow is not None and f.ret:
            rt_s = toks[arrow + 1].s
            rt_e = toks[ret_end_tok - 1].e
            # signature rewrites (E2) that fall inside the return type are folded into the naming edit
            inner = sorted([e for e in edits if rt_s <= e[0] and e[1] <= rt_e and e[0] < e[1]], key=lambda e: e[0])
            rt_txt, pos = '', rt_s
            for e in inner:
                rt_txt += text[pos:e[0]] + e[2]
                pos = e[1]
                edits.remove(e)
            rt_txt += text[pos:rt_e]
            edits.append((rt_s, rt_e, '(%s: %s)' % (f.ret, rt_txt), 'E8'))
        if spec:
            edits.append((toks[bo].s, toks[bo].s, '\n' + indent(spec, 8) + '\n    ', 'E8:spec'))

        body_lo, body_hi = bo + 1, bc
        # ---- E10: `mut self` receiver (unsupported by Verus) -> `self` + `let mut __self = self;`, body renamed
        if toks[par + 1].text == 'mut' and toks[par + 2].text == 'self' and not f.external_body:
            edits.append((toks[par + 1].s, toks[par + 2].s, '', 'E10'))
            edits.append((toks[bo].e, toks[bo].e, ' let mut __self = self; ', 'E10'))
            for ti in range(body_lo, body_hi):
                if toks[ti].kind == 'id' and toks[ti].text == 'self':
                    edits.append((toks[ti].s, toks[ti].e, '__self', 'E10'))
            self.log('E10', what, 'mut self', 'self + `let mut __self = self;` (body renamed)')
        elif toks[par + 1].text == 'mut' and toks[par + 2].text == 'self':
            edits.append((toks[par + 1].s, toks[par + 2].s, '', 'E10'))
        if f.external_body:
            # body replaced: contract is trusted, body not verified
            edits.append((toks[bo].e, toks[bc].s, ' unimplemented!() ', 'TRUSTED'))
            self.log('TRUSTED', what, '<body of %s>' % f.qual, 'external_body: ' + (f.trusted_reason or ''))
        else:
            # ---- E5: drop log macros and debug_assert
            for mac in ('trace', 'debug', 'info', 'warn', 'error'):
                p = Pattern(mac + ' ! ( $_ ) ;')
                for (ms, me, caps) in p.find_all(toks, src.pair, body_lo, body_hi):
                    edits.append((toks[ms].s, toks[me - 1].e, '', 'E5'))
                    self.log('E5', what, text[toks[ms].s:toks[me - 1].e], '')
            p = Pattern('debug_assert ! ( $_ ) ;')
            user_da = [e for e in f.edits if isinstance(e, Replace) and e.pattern.startswith('debug_assert')]
            if not user_da:
                for (ms, me, caps) in p.find_all(toks, src.pair, body_lo, body_hi):
                    edits.append((toks[ms].s, toks[me - 1].e, '', 'E5'))
                    self.log('E5', what, text[toks[ms].s:toks[me - 1].e], '(debug_assert dropped: absent from release builds)')

            if f.hide:
                edits.append((toks[bo].e, toks[bo].e, '\n' + ' '.join('hide(%s);' % h for h in f.hide) + '\n', 'E8:hide'))
            for e in f.edits:
                if isinstance(e, Ins):
                    check_ghost(e.text, what)
                    if e.where == 'body_start':
                        off = toks[bo].e
                    elif e.where == 'body_end':
                        off = toks[bc].s
                    else:
                        ms, me, caps = self.locate(src, body_lo, body_hi, e.pattern, e.occ, what)
                        if e.where == 'before':
                            off = toks[ms].s
                        elif e.where == 'after':
                            off = toks[me - 1].e
                        elif e.where == 'after_stmt':
                            se = stmt_end(src, ms, body_hi)
                            off = toks[se - 1].e
                        elif e.where == 'block_end':
                            if toks[me - 1].text != '{':
                                raise ExtractError('block_end pattern must end with `{` in %s' % what)
                            off = toks[src.pair[me - 1]].s
                        else:
                            raise ExtractError('bad where %r' % e.where)
                    lab = '//@label %s\n' % e.label if e.label else ''
                    edits.append((off, off, '\n' + lab + e.text.strip('\n') + '\n', 'E8:' + (e.label or e.pattern or e.where)))
                elif isinstance(e, ForLoop):
                    ms, me, caps = self.locate(src, body_lo, body_hi, e.pattern, e.occ, what)
                    if toks[ms].text != 'for' or toks[me - 1].text != '{':
                        raise ExtractError('ForLoop pattern must span `for .. {` in %s' % what)
                    # split header at `in` (depth 0)
                    j = ms + 1
                    while toks[j].text != 'in':
                        j = src.pair[j] + 1 if toks[j].text in OPEN else j + 1
                    pat_txt = text[toks[ms + 1].s:toks[j - 1].e]
                    expr_txt = text[toks[j + 1].s:toks[me - 2].e]
                    close = src.pair[me - 1]
                    if e.place:
                        # `for p in PLACE.by_ref()` iterates PLACE itself
                        if norm(expr_txt) != norm(e.place + ('.by_ref()' if e.by_ref else '')):
                            raise ExtractError('ForLoop place %r does not match iterated expression %r in %s' % (e.place, expr_txt, what))
                        itname = e.place
                        intro = '{ ' + e.pre
                    else:
                        itname = e.it
                        if e.via:
                            intro = '{ let mut %s = %s; %s' % (itname, e.via % expr_txt, e.pre)
                        elif e.wrap:
                            intro = '{ let mut %s = %s(%s); %s' % (itname, e.wrap, expr_txt, e.pre)
                        elif e.into_iter:
                            intro = '{ let mut %s = core::iter::IntoIterator::into_iter(%s); %s' % (itname, expr_txt, e.pre)
                        else:
                            intro = '{ let mut %s = %s; %s' % (itname, expr_txt, e.pre)
                    if e.pre:
                        check_ghost(e.pre, what)
                    if e.body_pre:
                        check_ghost(e.body_pre, what)
                    hdr = '%s\n%sloop\n%s\n{\n%s\nlet Some(%s) = %s.next() else { break };' % (intro, '//@label %s\n' % e.label if e.label else '', indent(e.spec.strip(), 4), e.body_pre, pat_txt, itname)
                    edits.append((toks[ms].s, toks[me - 1].e, hdr, 'E1:' + (e.label or e.pattern)))
                    edits.append((toks[close].e, toks[close].e, ' }', 'E1:close'))
                    self.log('E1', what, text[toks[ms].s:toks[me - 1].e], re.sub(r'\n\s*invariant.*?\n\{', ' <spec> {', hdr, flags=re.S))
                elif isinstance(e, LoopSpec):
                    ms, me, caps = self.locate(src, body_lo, body_hi, e.pattern, e.occ, what)
                    if toks[ms].text not in ('loop', 'while') or toks[me - 1].text != '{':
                        raise ExtractError('LoopSpec pattern must span `loop|while .. {` in %s' % what)
                    off = toks[me - 1].s
                    edits.append((off, off, '\n' + ('//@label %s\n' % e.label if e.label else '') + indent(e.spec.strip(), 4) + '\n', 'E8:' + (e.label or e.pattern)))
                elif isinstance(e, Closure):
                    ms, me, caps = self.locate(src, body_lo, body_hi, e.pattern, e.occ, what)
                    if toks[ms].text != '|' or toks[me - 1].text != '|':
                        raise ExtractError('Closure pattern must be the |params| tokens in %s' % what)
                    edits.append((toks[ms].s, toks[me - 1].e, e.header, 'E3'))
                    self.log('E3', what, text[toks[ms].s:toks[me - 1].e], e.header)
                elif isinstance(e, Replace):
                    if e.occ == 'all':
                        hits = Pattern(e.pattern).find_all(toks, src.pair, body_lo, body_hi)
                    else:
                        hits = [self.locate(src, body_lo, body_hi, e.pattern, e.occ, what)]
                    for (ms, me, caps) in hits:
                        rep = self.subst(src, e.template, caps)
                        edits.append((toks[ms].s, toks[me - 1].e, rep, e.rule))
                        self.log(e.rule, what, text[toks[ms].s:toks[me - 1].e], rep + ('   // ' + e.why if e.why else ''))
                elif isinstance(e, Wrap):
                    ms, me, caps = self.locate(src, body_lo, body_hi, e.pattern, e.occ, what)
                    if toks[me - 1].text != '{':
                        raise ExtractError('Wrap pattern must end with `{` in %s' % what)
                    close = src.pair[me - 1]
                    last = close + e.close_tail
                    edits.append((toks[ms].s, toks[me - 1].e, self.subst(src, e.open_text, caps), e.rule))
                    edits.append((toks[close].s, toks[last].e, self.subst(src, e.close_text, caps), e.rule + ':close'))
                    self.log(e.rule, what, text[toks[ms].s:toks[me - 1].e] + ' .. ' + text[toks[close].s:toks[last].e], e.open_text.strip()[:200] + ' .. ' + e.close_text.strip()[:200] + ('   // ' + e.why if e.why else ''))
                elif isinstance(e, MatchFnClosures):
                    pass  # applied to the assembled text below
                elif isinstance(e, Tail):
                    check_ghost(e.text, what)
                    ts = body_tail_start(src, bo, bc)
                    if ts is None:
                        raise ExtractError('lost anchor: %s has no tail expression' % what)
                    edits.append((toks[ts].s, toks[ts].s, 'let __res = ', 'E6'))
                    edits.append((toks[bc - 1].e, toks[bc - 1].e, ';\n' + ('//@label %s\n' % e.label if e.label else '') + e.text.strip('\n') + '\n__res\n', 'E6:' + (e.label or 'exit')))
                    self.log('E6', what, '<tail expression>', 'let __res = <tail>; <ghost> __res')
                else:
                    raise ExtractError('unknown edit %r' % e)

        # ---- apply
        start_off = head_start
        end_off = toks[bc].e
        out = apply_edits(text, start_off, end_off, edits, what)
        if not f.external_body:
            for e in f.edits:
                if isinstance(e, MatchFnClosures):
                    out = self.matchfn_closures(out, what, e.ctor, e.calls)
        attrs = f.attrs
        if f.external_body:
            attrs = (attrs + '\n' if attrs else '') + '#[verifier::external_body]'
        if attrs:
            out = attrs + '\n' + out
        plain = text[head_start:end_off]
        if not canary:
            self.fn_texts[f.qual] = plain
        return out, htxt, src.line_of(head_start)


    def matchfn_closures(self, ftext, what, ctor='MatchFn :: new', calls=None):
        """rule E3 for closures handed to MatchFn::new (see class MatchFnClosures); works on the assembled function text"""
        toks = lex(ftext)
        pair = match_brackets(toks)
        p = Pattern(ctor + ' ( $cl )')
        ctor_txt = ctor.replace(' ', '')
        edits = []
        n = 0
        for (ms, me, caps) in p.find_all(toks, pair, 0, len(toks)):
            a, b = caps['cl']
            j = a
            mv = ''
            if toks[j].text == 'move':
                mv = 'move '
                j += 1
            if j + 2 >= len(toks) or toks[j].text != '|' or toks[j + 2].text != '|' or toks[j + 1].kind != 'id':
                continue
            par = toks[j + 1].text
            btxt = ftext[toks[j + 3].s:toks[b - 1].e]
            par2 = '__ch' if par == '_' else par
            ex_body = re.sub(r'\.\s*inner\s*\(\s*\)\s*\(', '.__call(', btxt)
            rest = re.sub(r'\.__call\(', '(', ex_body)
            sp_src = ex_body
            for meth, specfn in (calls or {}).items():
                # `x.meth()` on the closure parameter: std contract `r == specfn(x)`
                rest = re.sub(r'\b%s\s*\.\s*%s\s*\(\s*\)' % (re.escape(par2), meth), '%s(%s)' % (specfn, par2), rest)
                sp_src = re.sub(r'\b%s\s*\.\s*%s\s*\(\s*\)' % (re.escape(par2), meth), '%s(%s)' % (specfn, par2), sp_src)
            if re.search(r'\.\s*[A-Za-z_]\w*\s*\(', rest):
                continue  # calls something else than a captured MatchFn: not a boolean combination
            sp_body = sp_src.replace('.__call(', '.sem()(')
            n += 1
            rep = ('{ let ghost __g%d = |%s: char| %s; let __cl%d = %s|%s: char| -> (b: bool) ensures b == (%s) { %s }; '
                   'proof { assert(mf_models(__cl%d, __g%d)); } %s(__cl%d) }') % (n, par2, sp_body, n, mv, par2, sp_body, ex_body, n, n, ctor_txt, n)
            edits.append((toks[ms].s, toks[me - 1].e, rep, 'E3'))
            self.log('E3', what, ftext[toks[ms].s:toks[me - 1].e], rep)
        return apply_edits(ftext, 0, len(ftext), edits, what)

    def subst(self, src, tmpl, caps):
        def rep(m):
            nm = m.group(1)
            if nm not in caps:
                raise ExtractError('template uses unknown capture $%s' % nm)
            a, b = caps[nm]
            if a == b:
                return ''
            return src.text[src.toks[a].s:src.toks[b - 1].e]
        return re.sub(r'\$([A-Za-z_][A-Za-z0-9_]*)', rep, tmpl)

    # ------------------------------------------------------------------ struct extraction (E4)
    def extract_struct(self, sdef):
        src = self.src(sdef.file)
        toks, text = src.toks, src.text
        found = None
        for (s, kw, e) in split_items(src, 0, len(toks)):
            if toks[kw].text == 'struct' and toks[kw + 1].text == sdef.name:
                found = (s, kw, e)
        if not found:
            raise ExtractError('struct %s not found in %s' % (sdef.name, sdef.file))
        s, kw, e = found
        # derive list
        derives = []
        i = s
        while toks[i].text == '#':
            c = src.pair[i + 1]
            atxt = text[toks[i].s:toks[c].e]
            m = re.match(r'#\[derive\((.*)\)\]$', atxt, re.S)
            if m:
                derives += [d.strip() for d in m.group(1).split(',') if d.strip()]
            i = c + 1
        keep = [d for d in derives if d in ('Clone', 'Copy', 'PartialEq', 'Eq', 'PartialOrd', 'Ord', 'Hash', 'Default')]
        if sdef.derive is not None:
            keep = [d for d in keep if d in sdef.derive]
        for rd in sdef.require_derive:
            if rd not in derives:
                raise ExtractError('struct %s (%s) no longer derives %s: the contracts assume the derived, field-wise implementation' % (sdef.name, sdef.file, rd))
            if re.search(r'impl\s+(?:std::hash::|core::hash::|std::cmp::|core::cmp::)?%s\s+for\s+%s\b' % (rd, sdef.name), text):
                raise ExtractError('struct %s (%s) has a hand-written impl of %s' % (sdef.name, sdef.file, rd))
        if 'PartialEq' in keep and sdef.structural:
            keep.append('Structural')
        body = text[toks[kw].s:toks[e - 1].e]
        # fields -> pub
        btoks = lex(body)
        bpair = match_brackets(btoks)
        # locate field list
        outb = body
        edits = []
        self_dyn = sdef.dyn_param
        for idx, t in enumerate(btoks):
            if t.text in ('{', '(') and idx > 0:
                c = bpair[idx]
                # split fields at depth-0 commas
                j = idx + 1
                fstart = j
                angle = 0
                while j <= c:
                    if btoks[j].text == '<':
                        angle += 1
                    elif btoks[j].text == '>':
                        angle -= 1
                    if j == c or (btoks[j].text == ',' and angle == 0):
                        if fstart < j:
                            # skip attributes
                            q = fstart
                            while btoks[q].text == '#':
                                q = bpair[q + 1] + 1
                            if self_dyn and btoks[q if btoks[q].text != 'pub' else q].text:
                                # locate the type: after the ':' at depth 0
                                cq = q
                                while btoks[cq].text != ':':
                                    cq += 1
                                if btoks[cq + 1].text == 'Arc' and btoks[cq + 2].text == '<' and btoks[cq + 3].text == 'dyn':
                                    edits.append((btoks[cq + 1].s, btoks[j - 1].e, 'Arc<%s>' % self_dyn, 'E2'))
                                    self.log('E2', 'struct ' + sdef.name, body[btoks[cq + 1].s:btoks[j - 1].e], 'Arc<%s>' % self_dyn)
                            if btoks[q].text == 'pub':
                                qe = q + 1
                                if btoks[qe].text == '(':
                                    qe = bpair[qe] + 1
                                edits.append((btoks[q].s, btoks[qe - 1].e, 'pub', 'E4'))
                            else:
                                edits.append((btoks[q].s, btoks[q].s, 'pub ', 'E4'))
                        fstart = j + 1
                        j += 1
                        continue
                    if btoks[j].text in OPEN:
                        j = bpair[j] + 1
                        continue
                    j += 1
                break
        outb = apply_edits(body, 0, len(body), edits, 'struct ' + sdef.name)
        # drop doc comments inside
        outb = re.sub(r'^\s*///.*\n', '', outb, flags=re.M)
        res = ''
        if keep:
            res += '#[derive(%s)]\n' % ', '.join(keep)
        res += 'pub ' + outb + '\n'
        self.log('E4', 'struct %s (%s)' % (sdef.name, sdef.file), 'derive(%s)' % ', '.join(derives), 'derive(%s); all fields pub' % ', '.join(keep))
        if sdef.extra:
            res += sdef.extra + '\n'
        return res, src.line_of(toks[kw].s)

    def extract_enum(self, edef):
        src = self.src(edef.file)
        toks, text = src.toks, src.text
        found = None
        for (s, kw, e) in split_items(src, 0, len(toks)):
            if toks[kw].text == 'enum' and toks[kw + 1].text == edef.name:
                found = (s, kw, e)
        if not found:
            raise ExtractError('enum %s not found in %s' % (edef.name, edef.file))
        s, kw, e = found
        body = text[toks[kw].s:toks[e - 1].e]
        body = re.sub(r'^\s*///.*\n', '', body, flags=re.M)
        if edef.strip_attrs:
            def gated(m):
                return '' if m.group(1) not in edef.default_features else m.group(2)
            body = re.sub(r'#\[cfg\(feature\s*=\s*"([^"]+)"\)\]\s*((?:#\[[^\]]*\]\s*)*\w+\s*(?:\([^()]*\))?\s*,)', gated, body)
            body = re.sub(r'#\[[^\]]*\]\s*', '', body)
        keep = [d for d in (edef.derive or [])]
        res = ('#[derive(%s)]\n' % ', '.join(keep) if keep else '') + 'pub ' + body + '\n'
        self.log('E4', 'enum %s (%s)' % (edef.name, edef.file), 'derives/doc comments', 'dropped; pub')
        return res, src.line_of(toks[kw].s)

    def cast_sites(self, cs):
        src = self.src(cs.file)
        toks, text, pair = src.toks, src.text, src.pair
        # skip #[cfg(test)] mod tests { .. }
        skip = []
        for (s, kw, e) in split_items(src, 0, len(toks)):
            if toks[kw].text == 'mod' and 'cfg(test)' in norm(text[toks[s].s:toks[kw].s]):
                skip.append((s, e))
        out = []
        sites = []
        for i, t in enumerate(toks):
            if t.text != 'as' or i + 1 >= len(toks) or toks[i + 1].text not in cs.aliases:
                continue
            if any(a <= i < b for a, b in skip):
                continue
            # operand: walk back to the start of the unary expression
            j = i - 1
            depth = 0
            while j >= 0:
                tx = toks[j].text
                if tx in CLOSE:
                    j = pair[j] - 1
                    continue
                if tx in OPEN or tx in (',', '=', ';', '{', '}', '+', '-', '*', '/', '&&', '||', '==', '<', '>', 'return', '=>'):
                    break
                j -= 1
            operand = text[toks[j + 1].s:toks[i - 1].e]
            alias = toks[i + 1].text
            line = src.line_of(t.s)
            key = norm(operand)
            if key not in {norm(k): v for k, v in cs.operands.items()}:
                raise ExtractError('cast site %s:%d `%s as %s`: operand not in the sidecar table' % (cs.file, line, operand, alias))
            oty = {norm(k): v for k, v in cs.operands.items()}[key]
            name = 'cast_site_%s_L%d' % (re.sub(r'\W', '_', os.path.basename(cs.file)), line)
            out.append('''/// %s:%d  `%s as %s`
pub proof fn %s(x: %s)
    requires x <= %s
    ensures (x as %s) as int == x as int
{
}
''' % (cs.file, line, operand.strip(), alias, name, oty, cs.bound, alias))
            sites.append(dict(file=cs.file, line=line, operand=operand.strip(), alias=alias, obligation=name))
        if not sites:
            raise ExtractError('no cast sites found in %s' % cs.file)
        self.cast_site_list = getattr(self, 'cast_site_list', []) + sites
        self.log('GEN', cs.file, '%d cast sites' % len(sites), 'one losslessness obligation per site (operand <= %s)' % cs.bound)
        return '\n'.join(out)

    # ------------------------------------------------------------------ impl_id! expansion (E7)
    def expand_id(self, m):
        src = self.src(m.file)
        text = src.text
        # check the invocation exists and find the base type
        mm = re.search(r'impl_id!\(\s*%s\s*,\s*([A-Za-z0-9_]+)\s*\);' % re.escape(m.name), text)
        if not mm:
            raise ExtractError('impl_id!(%s, ..) not found in %s' % (m.name, m.file))
        base_alias = mm.group(1)
        ma = re.search(r'type\s+%s\s*=\s*([A-Za-z0-9_]+)\s*;' % re.escape(base_alias), text)
        if not ma:
            raise ExtractError('type alias %s not found' % base_alias)
        base = ma.group(1)
        # macro body
        mb = re.search(r'macro_rules!\s*impl_id\s*\{', text)
        if not mb:
            raise ExtractError('macro impl_id not found')
        toks, pair = src.toks, src.pair
        # find token index of the macro's outer brace
        oi = None
        for i, t in enumerate(toks):
            if t.text == 'impl_id' and toks[i - 1].text == '!' and toks[i - 2].text == 'macro_rules':
                oi = i + 1
                break
        if oi is None or toks[oi].text != '{':
            raise ExtractError('macro impl_id: unexpected shape')
        # ( $name:ident, $tp:ty ) => { BODY } ;
        arm_open = oi + 1
        if toks[arm_open].text != '(':
            raise ExtractError('macro impl_id: unexpected shape')
        arm_close = pair[arm_open]
        params = text[toks[arm_open].s:toks[arm_close].e]
        if norm(params) != '($name:ident,$tp:ty)':
            raise ExtractError('macro impl_id: parameters changed: %s' % params)
        bopen = arm_close + 2
        if toks[arm_close + 1].text != '=>' or toks[bopen].text != '{':
            raise ExtractError('macro impl_id: unexpected shape')
        bclose = pair[bopen]
        body = text[toks[bopen].e:toks[bclose].s]
        body = body.replace('$name', m.name).replace('$tp', base_alias)
        # now parse the expanded body as a file-like source
        tmp = Src.__new__(Src)
        tmp.rel = m.file + '<impl_id!(%s)>' % m.name
        tmp.text = body
        tmp.toks = lex(body)
        tmp.pair = match_brackets(tmp.toks)
        out = []
        if base_alias not in self.aliases_done:
            self.aliases_done.add(base_alias)
            out.append('pub type %s = %s;' % (base_alias, base))
        for (s, kw, e) in split_items(tmp, 0, len(tmp.toks)):
            k = tmp.toks[kw].text
            if k == 'struct':
                out.append('#[derive(Debug, Clone, Copy, PartialEq, Eq, PartialOrd, Ord, Hash, Default, Structural)]\npub struct %s(pub %s);' % (m.name, base_alias))
            elif k == 'impl':
                j = kw + 1
                while tmp.toks[j].text != '{':
                    j = tmp.pair[j] + 1 if tmp.toks[j].text in OPEN else j + 1
                hdr = body[tmp.toks[kw].s:tmp.toks[j].s].strip()
                hn = norm(hdr)
                if hn == norm('impl ' + m.name):
                    fns = []
                    for (s2, k2, e2) in split_items(tmp, j + 1, tmp.pair[j]):
                        nm = tmp.toks[k2 + 1].text
                        if nm not in m.members:
                            continue
                        ftxt = body[tmp.toks[k2].s:tmp.toks[e2 - 1].e]
                        quals = 'const ' if any(t.text == 'const' for t in tmp.toks[s2:k2]) else ''
                        sp = m.specs.get(nm)
                        if sp:
                            # name the return value r
                            ftxt = re.sub(r'->\s*([A-Za-z0-9_:<>$]+)\s*\{', lambda mo: '-> (r: %s)\n        %s\n    {' % (mo.group(1), sp), ftxt, count=1)
                        fns.append('    pub ' + quals + ftxt)
                    out.append('impl %s {\n%s\n}' % (m.name, '\n'.join(fns)))
                elif m.with_from and hn == norm('impl From<%s> for %s' % (base_alias, m.name)):
                    itxt = body[tmp.toks[kw].s:tmp.toks[e - 1].e]
                    itxt = re.sub(r'->\s*Self\s*\{', '-> (r: Self)\n        ensures r.0 == index\n    {', itxt, count=1)
                    out.append(itxt)
                    out.append('impl vstd::std_specs::convert::FromSpecImpl<%s> for %s {\n    open spec fn obeys_from_spec() -> bool { true }\n    open spec fn from_spec(v: %s) -> Self { %s(v) }\n}' % (base_alias, m.name, base_alias, m.name))
                else:
                    for cont in m.index_for:
                        want = norm('impl<T> std::ops::Index<%s> for %s' % (m.name, 'Vec<T>' if cont == 'Vec' else '[T]'))
                        if hn == want:
                            itxt = body[tmp.toks[kw].s:tmp.toks[e - 1].e]
                            itxt = re.sub(r'#\[inline\]\s*', '', itxt)
                            itxt = re.sub(r'->\s*&Self::Output\s*\{', '-> (r: &Self::Output)\n        ensures *r == self@[index.0 as int]\n    {', itxt)
                            out.append(itxt)
                            out.append('impl<T> vstd::std_specs::core::IndexSpecImpl<%s> for %s {\n    open spec fn index_req(&self, index: &%s) -> bool { index.0 < self@.len() }\n}' % (m.name, 'Vec<T>' if cont == 'Vec' else '[T]', m.name))
        res = '\n'.join(out) + '\n'
        res = re.sub(r'^\s*///.*\n', '', res, flags=re.M)
        res = re.sub(r'^\s*#\[(inline|allow\(dead_code\))\]\s*\n', '', res, flags=re.M)
        self.log('E7', 'impl_id!(%s, %s)' % (m.name, base_alias), 'macro invocation', 'expanded members: %s, Index for %s' % (','.join(m.members), ','.join(m.index_for)))
        return res



def _angle_close(toks, i):
    """toks[i] is '<': index of the matching '>'"""
    d = 0
    j = i
    while j < len(toks):
        if toks[j].text == '<':
            d += 1
        elif toks[j].text == '>':
            d -= 1
            if d == 0:
                return j
        elif toks[j].text in ('{', ';'):
            break
        j += 1
    raise ExtractError('unbalanced generics')


def genericize(text, gtypes, impl_header=False):
    """rule E2 for types: a struct holding `Arc<dyn Fn..>` becomes generic over the closure type.
    gtypes: list of (TypeName, Param, Bound). Adds the parameter at the definition, at every use in type
    position and to impl headers."""
    if not gtypes:
        return text
    toks = lex(text)
    ins = []  # (offset, text)
    needs = []
    for i, t in enumerate(toks):
        if t.kind != 'id':
            continue
        for (T, P, B) in gtypes:
            if t.text != T:
                continue
            prev = toks[i - 1].text if i > 0 else ''
            nxt = toks[i + 1].text if i + 1 < len(toks) else ''
            if nxt == '::' or prev == '::' and False:
                continue
            if prev == 'struct':
                if nxt == '<':
                    c = _angle_close(toks, i + 1)
                    ins.append((toks[c].s, ', %s: %s' % (P, B)))
                else:
                    ins.append((t.e, '<%s: %s>' % (P, B)))
                continue
            if nxt == '{' and not impl_header and prev not in ('->', ':', '&', 'mut', '<', ',', 'for', 'dyn', 'impl', 'as'):
                continue  # struct literal / pattern `T { .. }`: the parameter is inferred
            if nxt == '<':
                c = _angle_close(toks, i + 1)
                ins.append((toks[c].s, ', %s' % P))
            else:
                ins.append((t.e, '<%s>' % P))
            if (P, B) not in needs:
                needs.append((P, B))
    if impl_header and needs:
        decl = ', '.join('%s: %s' % pb for pb in needs)
        if toks and toks[0].text == '<':
            c = _angle_close(toks, 0)
            ins.append((toks[c].s, ', ' + decl))
        else:
            ins.append((0, '<' + decl + '> '))
    ins.sort(key=lambda x: x[0])
    out = []
    pos = 0
    for off, tx in ins:
        out.append(text[pos:off])
        out.append(tx)
        pos = off
    out.append(text[pos:])
    return ''.join(out)


def add_false_ensures(spec):
    """append `false` to the ensures clause (vacuity canary)"""
    toks = lex(spec)
    # find top-level `ensures`
    idx = None
    for i, t in enumerate(toks):
        if t.kind == 'id' and t.text == 'ensures':
            idx = i
            break
    if idx is None:
        # before decreases, if any
        for i, t in enumerate(toks):
            if t.kind == 'id' and t.text == 'decreases':
                return spec[:t.s] + 'ensures false,\n' + spec[t.s:]
        return spec + '\nensures false,'
    t = toks[idx]
    return spec[:t.e] + ' false,' + spec[t.e:]


def indent(s, n):
    pad = ' ' * n
    return '\n'.join(pad + l if l.strip() else l for l in s.split('\n'))


def apply_edits(text, lo, hi, edits, what):
    # sort by start; insertion at same offset keep given order
    es = sorted(enumerate(edits), key=lambda p: (p[1][0], 0 if p[1][3] == 'E1:close' else 1, p[1][1], p[0]))
    out = []
    pos = lo
    for _, (s, e, rep, tag) in es:
        if s < pos:
            if s == e and s >= lo and out and False:
                pass
            raise ExtractError('overlapping edits in %s at offset %d (%s)' % (what, s, tag))
        out.append(text[pos:s])
        out.append(rep)
        pos = e
    out.append(text[pos:hi])
    return ''.join(out)


# ----------------------------------------------------------------------------- unit assembly
def build_unit(unit, repo, unit_dir, canary=False):
    """returns (text, origins, extractor, contracted function list)"""
    ex = Extractor(repo)
    out = Out()
    out.add(unit['header'], ('prelude', 'header'))
    out.add('verus! {', ('prelude', 'header'))
    contracted = []
    pending_impl = None  # (header, [texts])

    gtypes = unit.get('generic_types', [])

    def flush():
        nonlocal pending_impl
        if pending_impl:
            hdr, parts = pending_impl
            hdr = genericize(hdr, gtypes, impl_header=True)
            out.add('impl%s%s {' % ('' if hdr.startswith('<') else ' ', hdr), ('glue', 'impl ' + hdr))
            for (txt, origin) in parts:
                out.add(indent(txt, 4), origin)
            out.add('}', ('glue', 'impl ' + hdr))
            pending_impl = None

    for it in unit['items']:
        if isinstance(it, Fn):
            variants = [False]
            if it.spec and not it.external_body:
                contracted.append(it)
                if canary:
                    variants.append(True)
            for cv in variants:
                txt, htxt, line = ex.extract_fn(it, canary=cv)
                txt = genericize(txt, gtypes)
                origin = ('fn', it.qual + ('__canary' if cv else ''), it.file, line)
                if htxt is None:
                    flush()
                    out.add(txt, origin)
                else:
                    if pending_impl and pending_impl[0] != htxt:
                        flush()
                    if not pending_impl:
                        pending_impl = (htxt, [])
                    pending_impl[1].append((txt, origin))
        else:
            flush()
            if isinstance(it, Struct):
                txt, line = ex.extract_struct(it)
                txt = genericize(txt, gtypes)
                out.add(txt, ('struct', it.name, it.file, line))
            elif isinstance(it, CastSites):
                out.add(ex.cast_sites(it), ('generated', 'cast sites of ' + it.file))
            elif isinstance(it, Enum):
                txt, line = ex.extract_enum(it)
                out.add(txt, ('struct', it.name, it.file, line))
            elif isinstance(it, IdMacro):
                out.add(ex.expand_id(it), ('idmacro', it.name, it.file, 0))
            elif isinstance(it, Raw):
                out.add(it.text, ('raw', it.label))
            elif isinstance(it, SourceCheck):
                it.func(repo)
                out.add('// source condition checked on this run: %s' % it.label, ('raw', it.label))
            elif isinstance(it, RawFile):
                p = it.path if os.path.isabs(it.path) else os.path.join(unit_dir, it.path)
                rtxt = open(p).read()
                out.add(rtxt, ('rawfile', it.label, p))
                if canary and os.path.dirname(os.path.abspath(p)) == os.path.abspath(unit_dir):
                    # vacuity canaries for the unit's own spec-level theorems: same hypotheses and proof, conclusion `false`
                    for name, ctxt in theorem_canaries(rtxt):
                        out.add(ctxt, ('generated', 'canary of ' + name))
                        ex.theorem_canaries.append(name)
            else:
                raise ExtractError('unknown item %r' % it)
    flush()
    out.add('} // verus!\nfn main() {}', ('prelude', 'footer'))
    text, origins = out.render()
    return text, origins, ex, contracted


_THEOREM_RE = re.compile(r'^pub proof fn (theorem_\w+)(.*?)^\{\n(.*?)^\}\n', re.S | re.M)


def theorem_canaries(text):
    """for every `pub proof fn theorem_X(..) requires R ensures E [decreases D] { B }` (body braces in column 0) yield
    (X, text of `pub proof fn X__canary(..) requires R ensures false { B }`): it must NOT verify, else R is contradictory"""
    out = []
    for m in _THEOREM_RE.finditer(text):
        name, head, body = m.group(1), m.group(2), m.group(3)
        k = re.search(r'\bensures\b', head)
        if not k:
            continue
        head = head[:k.start()].rstrip() + '\n    ensures false\n'
        out.append((name, 'pub proof fn %s__canary%s{\n%s}\n' % (name, head, body)))
    return out


def as_contract(f, reason):
    """the same function, used through its contract only (body not verified in this unit)"""
    return Fn(f.file, f.impl, f.name, ret=f.ret, spec=f.spec, generics_dyn=f.generics_dyn, external_body=True,
              trusted_reason=reason, as_inherent=f.as_inherent, sig_replace=f.sig_replace, impl_as=f.impl_as, qual_as=f.qual_as, rename=f.rename)
