#!/usr/bin/env python3
"""soundness sweep of the bounded stand-in: every family, many seeds, on the UNCHANGED tree; any disagreement is a defect of the reference or of the crate (to be triaged), never expected.
usage: tools/sweep.py [seeds=20] [budget_ms=6000] [first_seed=1] [always]   (always: only the families that run on every quick check)"""
import os, sys, json, subprocess
sys.path.insert(0, os.path.dirname(os.path.abspath(__file__)))
import searcher
n = int(sys.argv[1]) if len(sys.argv) > 1 else 20
budget = sys.argv[2] if len(sys.argv) > 2 else '6000'
exe = searcher.build(os.environ.get('VERIF_REPO', '/repo'))
first = int(sys.argv[3]) if len(sys.argv) > 3 else 1
fams = sorted({f for v in searcher.FAMILIES.values() for f in v} - {'large'})
if len(sys.argv) > 4 and sys.argv[4] == 'always':
    fams = ['stream', 'lookahead', 'la_compete', 'finite', 'regex', 'cache', 'unsupported']
bad = 0
for seed in range(first, first + n):
    for f in fams:
        r = subprocess.run([exe, f, str(seed), budget], stdout=subprocess.PIPE, stderr=subprocess.PIPE, text=True)
        try:
            js = json.loads(r.stdout.strip().split('\n')[-1])
        except Exception:
            print('seed %d %s: crashed %s' % (seed, f, (r.stdout + r.stderr)[-300:])); bad += 1; continue
        if js.get('found'):
            bad += 1
            print('seed %d %s: DISAGREEMENT %s  case=%s' % (seed, f, js.get('disagreement'), json.dumps(js.get('case'))[:600]))
    print('seed %d done' % seed, flush=True)
print('sweep finished: %d disagreements' % bad)
sys.exit(1 if bad else 0)
