#!/usr/bin/env python3
"""Driver: ./check <property-id> [--tier quick|thorough] [--replay FILE]

exit 0: every obligation generated from /repo's current working tree for the property was discharged
exit 1: an obligation is refuted -> prints `VIOLATION property=<id> replay=<path>[ no-failing-input-found]`
exit 2: undecided (tool problem: lost anchor, unsupported construct, rustc error in generated text, resource limit)
"""
import sys
import os
import json
import time
import hashlib
import subprocess
import importlib.util
import re
import glob
import concurrent.futures as cf

HERE = os.path.dirname(os.path.abspath(__file__))
VERIF = os.path.dirname(HERE)
sys.path.insert(0, HERE)
import extract  # noqa: E402
from extract import ExtractError  # noqa: E402
import registry  # noqa: E402

REPO = os.environ.get('VERIF_REPO', '/repo')
BUILD = os.environ.get('VERIF_BUILD') or os.path.join(VERIF, 'build')  # VERIF_BUILD: scratch build directory for runs against a scratch copy of the repository (selftest, seeded changes)
EXT = os.path.join(VERIF, 'build', 'ext')  # shared by every build directory (built once by setup; scratch build dirs reuse it)
TOOLCHAIN = '1.98.1-x86_64-unknown-linux-gnu'
RLIMIT = os.environ.get('VERIF_RLIMIT', '30')
THEOREM_CANARY_RLIMIT = '10'  # spec-level theorems: `ensures false` with the same hypotheses and proof text must not verify
CANARY_RLIMIT = '1'  # a canary (`ensures false`) only has to be NOT provable; resource-out counts as not provable
CANARY_POOL = cf.ThreadPoolExecutor(max_workers=10)


def sh(cmd, **kw):
    return subprocess.run(cmd, stdout=subprocess.PIPE, stderr=subprocess.PIPE, text=True, **kw)


# ----------------------------------------------------------------------------- external crates for Verus
def registry_src(prefix):
    c = sorted(glob.glob(os.path.expanduser('~/.cargo/registry/src/*/%s-[0-9]*' % prefix)))
    if not c:
        raise ExtractError('crate source %s not in the offline registry' % prefix)
    return c[-1]


def ensure_externs(names):
    os.makedirs(EXT, exist_ok=True)
    out = {}
    for n in names:
        if n == 'rustc_hash':
            rlib = os.path.join(EXT, 'librustc_hash.rlib')
            if not os.path.exists(rlib):
                src = os.path.join(registry_src('rustc-hash'), 'src/lib.rs')
                r = sh(['rustup', 'run', TOOLCHAIN, 'rustc', '--crate-type', 'rlib', '--crate-name', 'rustc_hash', src,
                        '--edition', '2021', '--cfg', 'feature="std"', '-o', rlib + '.tmp%d' % os.getpid()])
                if r.returncode != 0:
                    raise ExtractError('cannot build rustc_hash for Verus: ' + r.stderr[-2000:])
                os.replace(rlib + '.tmp%d' % os.getpid(), rlib)
            out[n] = rlib
        elif n == 'regex_syntax':
            rlib = os.path.join(EXT, 'libregex_syntax.rlib')
            if not os.path.exists(rlib):
                src = os.path.join(registry_src('regex-syntax'), 'src/lib.rs')
                r = sh(['rustup', 'run', TOOLCHAIN, 'rustc', '--crate-type', 'rlib', '--crate-name', 'regex_syntax', src,
                        '--edition', '2021', '--cfg', 'feature="std"', '--cfg', 'feature="unicode"', '--cap-lints', 'allow',
                        '-o', rlib + '.tmp%d' % os.getpid()])
                if r.returncode != 0:
                    raise ExtractError('cannot build regex_syntax for Verus: ' + r.stderr[-2000:])
                os.replace(rlib + '.tmp%d' % os.getpid(), rlib)
            out[n] = rlib
        else:
            raise ExtractError('unknown extern ' + n)
    return out


# ----------------------------------------------------------------------------- units
def load_unit(name):
    p = os.path.join(VERIF, 'units', name, 'unit.py')
    spec = importlib.util.spec_from_file_location('unit_' + name, p)
    m = importlib.util.module_from_spec(spec)
    spec.loader.exec_module(m)
    return m.UNIT, os.path.dirname(p)


class UnitResult:
    pass


def parse_diags(stderr):
    """split rustc-style diagnostics: returns list of dict(level, msg, file, line, text)"""
    out = []
    cur = None
    for ln in stderr.split('\n'):
        m = re.match(r'^(error|warning|note)(\[[A-Z0-9]+\])?: (.*)$', ln)
        if m and not ln.startswith(' '):
            cur = dict(level=m.group(1), msg=m.group(3), code=m.group(2), file=None, line=None, text=[ln], sublines=[])
            out.append(cur)
            continue
        if cur is None:
            continue
        cur['text'].append(ln)
        m = re.match(r'^\s*--> (.*?):(\d+):(\d+)', ln)
        if m and cur['line'] is None:
            cur['file'], cur['line'] = m.group(1), int(m.group(2))
        m = re.match(r'^\s*(\d+)\s*\|', ln)
        if m:
            cur['sublines'].append(int(m.group(1)))
    return out


def origin_str(origins, line):
    if line is None or line < 1 or line > len(origins):
        return '?'
    o, idx = origins[line - 1]
    if o[0] == 'fn':
        return 'fn %s (%s, from line %d; generated line +%d)' % (o[1], o[2], o[3], idx)
    if o[0] in ('struct', 'idmacro'):
        return '%s %s (%s)' % (o[0], o[1], o[2])
    if o[0] == 'rawfile':
        return '%s:%d' % (o[1], idx + 1)
    return '%s %s' % (o[0], o[1])


def run_verus(path, externs, extra=(), multiple_errors='4', rlimit=RLIMIT):
    cmd = ['verus', path, '--output-json', '--time', '--rlimit', rlimit, '--multiple-errors', multiple_errors]
    for n, rlib in externs.items():
        cmd += ['--extern', '%s=%s' % (n, rlib)]
    cmd += list(extra)
    t0 = time.time()
    r = sh(cmd, cwd=os.path.dirname(path))
    wall = time.time() - t0
    js = None
    try:
        js = json.loads(r.stdout)
    except Exception:
        # sometimes rustc prints before the json
        i = r.stdout.find('{')
        if i >= 0:
            try:
                js = json.loads(r.stdout[i:])
            except Exception:
                js = None
    return cmd, r, js, wall


def fn_breakdown(js):
    res = {}
    try:
        for m in js['times-ms']['smt']['smt-run-module-times']:
            for f in m['function-breakdown']:
                res[f['function']] = f
    except Exception:
        pass
    return res


def process_unit(name, canary, bdir):
    """extract + verify one unit. returns UnitResult"""
    ur = UnitResult()
    ur.name = name
    ur.status = 'ok'       # ok | refuted | undecided
    ur.reason = ''
    ur.failed = []         # list of dict(obligation, detail)
    ur.groups = {}
    ur.wall = 0.0
    ur.canary_ok = None
    unit, udir = load_unit(name)
    ur.unit = unit
    try:
        externs = ensure_externs(unit.get('externs', []))
        text, origins, ex, contracted = extract.build_unit(unit, REPO, udir, canary=False)
    except Exception as e:
        ur.status = 'undecided'
        ur.reason = 'extraction: %s%s' % ('' if isinstance(e, ExtractError) else type(e).__name__ + ': ', e)
        ur.contracted = []
        ur.rewrites = []
        ur.fn_hashes = {}
        return ur
    ur.contracted = contracted
    ur.rewrites = ex.rewrites
    ur.fn_hashes = {q: hashlib.sha256(t.encode()).hexdigest() for q, t in ex.fn_texts.items()}
    os.makedirs(bdir, exist_ok=True)
    path = os.path.join(bdir, name + '.rs')
    open(path, 'w').write(text)
    json.dump([[list(o), i] for (o, i) in origins], open(os.path.join(bdir, name + '.origins.json'), 'w'))
    json.dump(ex.rewrites, open(os.path.join(bdir, name + '.rewrites.json'), 'w'), indent=1)
    ur.path = path
    ur.scan = scan_assumptions(text)
    cfuts = []
    tfuts = []
    if canary:
        try:
            ctext, corigins, cex, _ = extract.build_unit(unit, REPO, udir, canary=True)
            cpath = os.path.join(bdir, name + '_canary.rs')
            open(cpath, 'w').write(ctext)
            for f in contracted:
                cfuts.append((f, CANARY_POOL.submit(run_verus, cpath, externs, ('--verify-root', '--verify-function', f.qual + '__canary', '--num-threads', '1'), '1', CANARY_RLIMIT)))
            for tname in cex.theorem_canaries:
                tfuts.append((tname, CANARY_POOL.submit(run_verus, cpath, externs, ('--verify-root', '--verify-function', tname + '__canary', '--num-threads', '1'), '1', THEOREM_CANARY_RLIMIT)))
        except ExtractError as e:
            ur.status = 'undecided'
            ur.reason = 'canary extraction: %s' % e
            return ur
    vo = unit.get('verify_only')  # a unit that carries one extra obligation on top of another unit's text: verify that function only
    cmd, r, js, wall = run_verus(path, externs, extra=(('--verify-root', '--verify-function', vo) if vo else ()))
    ur.cmd = ' '.join(cmd)
    ur.wall = wall
    ur.stderr = r.stderr
    diags = parse_diags(r.stderr)
    errs = [d for d in diags if d['level'] == 'error']
    if js is None or 'verification-results' not in js:
        ur.status = 'undecided'
        ur.reason = 'verus produced no result (front-end error)\n' + r.stderr[-3000:]
        return ur
    vr = js['verification-results']
    ur.verified = vr.get('verified', 0)
    ur.errors = vr.get('errors', 0)
    ur.groups = fn_breakdown(js)
    if vo:
        ur.groups = {g: v for g, v in ur.groups.items() if g.split('::')[-1] == vo}
    ur.smt_ms = sum(g.get('time', 0) for g in ur.groups.values())
    if vr.get('encountered-vir-error') or (vr.get('encountered-error') and not ur.groups):
        ur.status = 'undecided'
        ur.reason = 'verus rejected the generated file before verification (rustc/VIR error)\n' + '\n'.join('\n'.join(d['text']) for d in errs[:5])[-3000:]
        return ur
    if not vr.get('success'):
        # classify each error
        real = []
        tool = []
        for d in errs:
            if d['msg'].startswith('aborting due to') or d['msg'].startswith('could not compile'):
                continue
            o = origin_str(origins, d['line'])
            entry = dict(msg=d['msg'], at=o, gen_line=d['line'], text='\n'.join(d['text'][:40]))
            if 'rlimit' in d['msg'] or 'resource limit' in d['msg'].lower() or 'timed out' in d['msg'].lower():
                tool.append(entry)
            else:
                real.append(entry)
        failed_groups = [g for g, v in ur.groups.items() if not v.get('success')]
        if real:
            ur.status = 'refuted'
            for e in real:
                e['obligation'] = obligation_name(name, e, origins, text)
            ur.failed = real
        elif tool:
            ur.status = 'undecided'
            ur.reason = 'resource limit: ' + '; '.join(e['msg'] + ' @ ' + e['at'] for e in tool)
        else:
            ur.status = 'undecided'
            ur.reason = 'verus failed without a classifiable diagnostic: ' + r.stderr[-2000:]
        ur.failed_groups = failed_groups
        return ur
    # ---- vacuity canary: a copy of every contracted function with `ensures false` must NOT verify
    if cfuts or tfuts:
        vac = []
        for f, fut in cfuts:
            ccmd, cr, cjs, cwall = fut.result()
            cg = fn_breakdown(cjs) if cjs else {}
            key = [g for g in cg if g.split('::', 1)[-1] == f.qual + '__canary']
            if not key:
                vac.append(f.qual + ' (canary not run: ' + (cr.stderr[-300:] if cr.stderr else 'no output') + ')')
                continue
            if all(cg[g].get('success') for g in key):
                vac.append(f.qual)
        for tname, fut in tfuts:
            ccmd, cr, cjs, cwall = fut.result()
            cg = fn_breakdown(cjs) if cjs else {}
            key = [g for g in cg if g.split('::', 1)[-1] == tname + '__canary']
            if not key:
                vac.append(tname + ' (theorem canary not run: ' + (cr.stderr[-300:] if cr.stderr else 'no output') + ')')
                continue
            if all(cg[g].get('success') for g in key):
                vac.append(tname)
        ur.canary_ok = not vac
        ur.canary_checked = [f.qual for f in contracted] + [t for t, _ in tfuts]
        if vac:
            ur.status = 'undecided'
            ur.reason = 'vacuity canary: `ensures false` verified for %s -> contradictory precondition or unreachable exit' % ', '.join(vac)
    return ur


def obligation_name(unit, e, origins, text):
    """unit/<function or lemma>/<kind>@<ghost label or code line>"""
    line = e['gen_line']
    kind = re.sub(r'[^a-z]+', '_', e['msg'].lower()).strip('_')[:40]
    where = '?'
    if line and 1 <= line <= len(origins):
        o, idx = origins[line - 1]
        if o[0] == 'fn':
            where = o[1]
            # nearest label comment above
            lines = text.split('\n')
            for j in range(line - 1, max(line - 400, 0), -1):
                if origins[j][0] != o:
                    break
                m = re.search(r'//@label (\S+)', lines[j])
                if m:
                    where += '/' + m.group(1)
                    break
        elif o[0] == 'rawfile':
            # enclosing proof fn
            lines = text.split('\n')
            where = o[1]
            for j in range(line - 1, 0, -1):
                m = re.match(r'\s*(pub )?(proof |broadcast proof )?fn (\w+)', lines[j])
                if m:
                    where = m.group(3)
                    break
        else:
            where = '%s:%s' % (o[0], o[1])
    return '%s/%s/%s' % (unit, where, kind)


ASSUME_PATTERNS = [
    ('assume', r'\bassume\s*\('),
    ('admit', r'\badmit\s*\('),
    ('external_body', r'external_body'),
    ('assume_specification', r'assume_specification'),
    ('axiom', r'\baxiom fn\b'),
    ('external_type_specification', r'external_type_specification'),
    ('external', r'#\[verifier::external\]'),
]


def scan_assumptions(text):
    out = {}
    for k, p in ASSUME_PATTERNS:
        out[k] = len(re.findall(p, text))
    return out


# ----------------------------------------------------------------------------- known findings
def load_known():
    p = os.path.join(VERIF, 'known_findings.txt')
    known = []
    if os.path.exists(p):
        for ln in open(p):
            ln = ln.strip()
            if ln.startswith('known:'):
                m = re.match(r'known:\s*property=(\S+)\s+obligation=(\S+)\s*(.*)$', ln)
                if m:
                    known.append(dict(prop=m.group(1), obligation=m.group(2), what=m.group(3)))
    return known


# ----------------------------------------------------------------------------- main
def main():
    args = sys.argv[1:]
    if not args:
        print(__doc__)
        return 2
    prop = args[0]
    tier = os.environ.get('VERIF_TIER', 'quick')
    replay = None
    i = 1
    while i < len(args):
        if args[i] == '--tier':
            tier = args[i + 1]
            i += 2
        elif args[i] == '--replay':
            replay = args[i + 1]
            i += 2
        else:
            i += 1
    seed = int(os.environ.get('VERIF_SEED', '0') or 0)
    if replay:
        return do_replay(prop, replay)
    if prop not in registry.PROPS:
        print('property %s is not claimed (see MANIFEST.json not_applicable)' % prop)
        return 2
    t0 = time.time()
    pdef = registry.PROPS[prop]
    units = pdef['units']
    results = []
    with cf.ThreadPoolExecutor(max_workers=max(1, len(units))) as pool:
        futs = [pool.submit(process_unit, u, True, os.path.join(BUILD, prop)) for u in units]
        for f in futs:
            results.append(f.result())
    extra = []
    if tier == 'thorough':
        extra = registry.thorough_extra(prop, seed, results)
        if all(r.status == 'ok' for r in results):
            extra += stability_runs(results, seed)
    if pdef.get('standin_always') and all(r.status == 'ok' for r in results):
        # functions of this property that are out of the verifier's reach: bounded stand-in on every run (labelled, never counted as proved)
        try:
            import searcher
            fams = pdef['standin_always']
            old = searcher.FAMILIES.get(prop)
            searcher.FAMILIES[prop] = fams
            ssum, fi = searcher.search(prop, seed, tier, REPO, budget_ms=(20000 if tier == 'thorough' else 6000))
            if old is not None:
                searcher.FAMILIES[prop] = old
            extra = [x for x in extra if not x.get('kind', '').startswith('searcher cross-check')]
            entry = dict(kind='bounded stand-in for the functions not under contract (NOT proof)', summary=ssum, failing_input=fi, standin_violation=fi is not None)
            bad = [r for r in ssum.get('runs', []) if r.get('error') is not None]
            if bad and fi is None:
                # a searcher run that crashed explored nothing: do not let it pass for "nothing found"
                entry['undecided'] = 'bounded stand-in could not run: %s' % '; '.join('%s: %r' % (r.get('family'), r.get('error')) for r in bad)
            extra.append(entry)
        except Exception as ex:
            extra.append(dict(kind='bounded stand-in', error=repr(ex), undecided='bounded stand-in could not run: %r' % (ex,)))
    return verdict(prop, tier, seed, pdef, results, extra, time.time() - t0)


def stability_runs(results, seed):
    """thorough tier: every unit is verified twice more with different solver seeds (proofs that depend on solver luck are the ones that later fail
    for no semantic reason). Informational: the obligations are discharged by the main run; a group that fails under another seed is listed as unstable."""
    out = []
    seeds = [str(11 + 2 * seed), str(4242 + seed)]
    with cf.ThreadPoolExecutor(max_workers=4) as pool:
        futs = []
        for ur in results:
            externs = ensure_externs(ur.unit.get('externs', []))
            vo = ur.unit.get('verify_only')
            for sd in seeds:
                extra = ['--smt-option', 'smt.random_seed=' + sd] + (['--verify-root', '--verify-function', vo] if vo else [])
                futs.append((ur.name, sd, pool.submit(run_verus, ur.path, externs, tuple(extra))))
        for name, sd, fut in futs:
            cmd, r, js, wall = fut.result()
            groups = fn_breakdown(js) if js else {}
            failed = sorted(g for g, v in groups.items() if not v.get('success'))
            known_failing = [g for g in failed if 'finding_c0' in g]  # the recorded-finding obligations fail by design
            failed = [g for g in failed if g not in known_failing]
            out.append(dict(kind='proof stability (same file, other solver seed)', unit=name, smt_random_seed=int(sd), groups=len(groups),
                            unstable_groups=failed, wall_s=round(wall, 1)))
    return out


def verdict(prop, tier, seed, pdef, results, extra, wall):
    evdir = os.environ.get('VERIF_EVIDENCE_DIR') or os.path.join(VERIF, 'evidence')
    os.makedirs(evdir, exist_ok=True)
    os.makedirs(os.path.join(VERIF, 'replay'), exist_ok=True)
    known = load_known()
    obligations = 0
    discharged = 0
    samples = []
    trusted = set()
    functions = []
    undecided = []
    violations = []
    per_unit = {}
    for ur in results:
        groups = ur.groups or {}
        obligations += len(groups)
        discharged += sum(1 for g in groups.values() if g.get('success'))
        per_unit[ur.name] = dict(status=ur.status, groups=len(groups), verified=getattr(ur, 'verified', 0),
                                 wall_s=round(ur.wall, 2), smt_ms=getattr(ur, 'smt_ms', 0),
                                 canary_functions=getattr(ur, 'canary_checked', []), canary_ok=ur.canary_ok,
                                 assumption_scan=getattr(ur, 'scan', {}),
                                 rewrite_counts=count_rules(ur.rewrites),
                                 slowest=sorted(((g, v.get('time', 0), v.get('rlimit', 0)) for g, v in groups.items()), key=lambda x: -x[1])[:5])
        for f in ur.contracted:
            functions.append(dict(function=f.qual, file=f.file, sha256=ur.fn_hashes.get(f.qual), unit=ur.name))
        for t in ur.unit.get('trusted', []) if hasattr(ur, 'unit') else []:
            trusted.add(t)
        if ur.status == 'undecided':
            undecided.append('%s: %s' % (ur.name, ur.reason))
        elif ur.status == 'refuted':
            for e in ur.failed:
                violations.append((ur, e))
        for g, v in list(groups.items())[:3]:
            samples.append(dict(obligation_group=g, discharged=bool(v.get('success')), time_ms=v.get('time'), rlimit=v.get('rlimit')))
    standin_fi = None
    for x in extra:
        if x.get('undecided'):
            undecided.append(x['undecided'])
        if x.get('standin_violation'):
            standin_fi = x
    trusted_base = sorted(trusted | set(registry.GLOBAL_TRUSTED))
    assumptions = list(pdef.get('assumptions', [])) + registry.GLOBAL_ASSUMPTIONS
    ev = dict(
        property_id=prop, tier=tier, seed=seed, level='proof',
        coverage=dict(
            obligations=obligations, discharged=discharged,
            checker_cmd='; '.join(getattr(ur, 'cmd', '(not run)') for ur in results),
            trusted_base=trusted_base,
            samples=samples,
            back_end='Verus 0.2026.09.13 / Z3 (bundled), single-file mode, --rlimit ' + RLIMIT,
            functions_under_contract=functions,
            units=per_unit,
            explanation=pdef.get('explanation', ''),
            extra=extra,
            exhaustive=False,
        ),
        assumptions=assumptions,
        wall_s=round(wall, 2),
        violations=0,
    )
    rc = 0
    lines = []
    if standin_fi is not None and not violations:
        path = os.path.join(VERIF, 'replay', '%s-bounded-stand-in.json' % prop)
        json.dump(dict(property_id=prop, obligation='bounded stand-in for the functions of this property that are not under contract',
                       failed_obligations=[], failing_input=standin_fi['failing_input'], searcher=standin_fi['summary'],
                       note='all verifier obligations are discharged; the violation was found by the bounded stand-in on the real code'), open(path, 'w'), indent=1)
        ev['violations'] = 1
        lines.append('VIOLATION property=%s replay=%s' % (prop, path))
        lines.append('NOTE property=%s found by the bounded stand-in (functions out of the verifier\'s reach): %s' % (prop, standin_fi['failing_input']['disagreement'][:300]))
        rc = 1
    if os.environ.get('VERIF_DEV'):
        for ur, e in violations:
            print('--- %s\n%s' % (e['obligation'], e['text']))
    known_groups = set()
    if violations:
        new = []
        for ur, e in violations:
            k = [x for x in known if x['prop'] == prop and x['obligation'] == e['obligation']]
            if k:
                lines.append('KNOWN-FINDING: property=%s %s (%s)' % (prop, e['obligation'], k[0]['what']))
                ev['coverage'].setdefault('known_findings', []).append(dict(obligation=e['obligation'], what=k[0]['what'], verifier_output=e.get('text', '')[:2000]))
                known_groups.add('/'.join(e['obligation'].split('/')[:2]))
            else:
                new.append((ur, e))
        if new:
            ur, e = new[0]
            rp = write_replay(prop, new, seed, tier)
            ev['violations'] = len(new)
            found = rp.get('failing_input') is not None
            lines.append('VIOLATION property=%s replay=%s%s' % (prop, rp['path'], '' if found else ' no-failing-input-found'))
            rc = 1
    if undecided and rc == 0:
        # bounded stand-in: the verifier could not ingest (part of) the current code. A bounded search on the REAL code may
        # still refute the property with a concrete input; if it does not, the property stays undecided (exit 2, no alarm).
        standin = None
        if any(u.split(': ', 1)[-1].startswith(('extraction', 'verus rejected', 'canary extraction')) for u in undecided):
            try:
                import searcher
                ssum, fi = searcher.search(prop, seed, tier, REPO)
                standin = dict(summary=ssum, failing_input=fi)
            except Exception as ex:
                standin = dict(summary='searcher unavailable: %r' % (ex,), failing_input=None)
        ev['coverage']['bounded_stand_in'] = standin
        if standin and standin.get('failing_input'):
            path = os.path.join(VERIF, 'replay', '%s-bounded-stand-in.json' % prop)
            json.dump(dict(property_id=prop, obligation='bounded-stand-in (verifier undecided: %s)' % '; '.join(undecided)[:500],
                           failed_obligations=[], failing_input=standin['failing_input'], searcher=standin['summary'],
                           note='decided by the bounded stand-in on the real code, NOT by the verifier'), open(path, 'w'), indent=1)
            ev['violations'] = 1
            lines.append('VIOLATION property=%s replay=%s' % (prop, path))
            lines.append('NOTE property=%s verifier undecided (%s); violation found by the bounded stand-in: %s' % (prop, undecided[0][:200], standin['failing_input']['disagreement'][:300]))
            rc = 1
        else:
            rc = 2
            for u in undecided:
                lines.append('UNDECIDED property=%s %s' % (prop, u))
    if known_groups:
        # a recorded finding is carried by a property-faithful obligation that FAILS on every run (that is how the finding stays visible);
        # it is not part of the proof claim: counted apart, so that obligations == discharged states exactly what is proved
        ev['coverage']['finding_obligations_failing_as_recorded'] = len(known_groups)
        ev['coverage']['obligations'] = obligations - len(known_groups)
        ev['coverage']['obligations_note'] = ('%d obligation group(s) restate the property without the hypothesis a known finding violates; they fail on every run by design, are reported as KNOWN-FINDING and are not counted in obligations/discharged'
                                              % len(known_groups))
    ev['coverage']['undecided'] = undecided
    json.dump(ev, open(os.path.join(evdir, prop + '.json'), 'w'), indent=1)
    for ln in lines:
        print(ln)
    if rc == 0:
        print('OK property=%s obligations=%d discharged=%d units=%s wall=%.1fs' % (prop, ev['coverage']['obligations'], discharged, ','.join(u.name for u in results), wall))
    return rc


def count_rules(rewrites):
    c = {}
    for r in rewrites or []:
        c[r['rule']] = c.get(r['rule'], 0) + 1
    return c


def write_replay(prop, new, seed, tier):
    """replay file: failed obligations + verifier output + (if found) a failing input for the real code"""
    ur, e = new[0]
    safe = re.sub(r'[^A-Za-z0-9_.-]+', '_', e['obligation'])[:120]
    path = os.path.join(VERIF, 'replay', '%s-%s.json' % (prop, safe))
    rp = dict(property_id=prop, obligation=e['obligation'],
              failed_obligations=[dict(obligation=x['obligation'], message=x['msg'], at=x['at'], verifier_output=x['text']) for (_, x) in new],
              unit=ur.name, generated_file=getattr(ur, 'path', None), checker_cmd=getattr(ur, 'cmd', None),
              failing_input=None, searcher=None)
    try:
        import searcher
        rp['searcher'], rp['failing_input'] = searcher.search(prop, seed, tier, REPO)
    except Exception as ex:  # searcher problems never mask the violation
        rp['searcher'] = 'searcher unavailable: %r' % (ex,)
    json.dump(rp, open(path, 'w'), indent=1)
    rp['path'] = path
    return rp


def do_replay(prop, path):
    rp = json.load(open(path))
    print('obligation: %s' % rp.get('obligation'))
    for f in rp.get('failed_obligations', []):
        print('--- %s\n%s' % (f['obligation'], f['verifier_output']))
    fi = rp.get('failing_input')
    if fi is None:
        print('no failing input recorded (no-failing-input-found); re-running the check decides the obligation again')
        return 1
    try:
        import searcher
        ok = searcher.replay(prop, fi, REPO)
    except Exception as ex:
        print('replay failed to run: %r' % (ex,))
        return 2
    print('replayed on real code: %s' % ('still failing' if not ok else 'passes now'))
    return 1 if not ok else 0


if __name__ == '__main__':
    sys.exit(main())
