#!/bin/bash
export VERIF_EVIDENCE_DIR=/verif/build/evidence_scratch
# usage: seed_eval.sh <worktree-id e.g. C04> <seed-name> <prop> [<prop>...]
# confirms a seeded change in its scratch worktree, stores it under /verif/seeded/<seed-name>, runs the checks against /repo with it applied
set -u
wt=/tmp/seed_$1; name=$2; shift 2; props="$@"
out=/verif/seeded/$name; mkdir -p $out
cd $wt || exit 9
git diff -- scnr/src > $out/patch.diff
cp scnr/tests/seed_demo.rs $out/demo.rs 2>/dev/null || cp SEED/demo.rs $out/demo.rs
cp SEED/meta.txt $out/agent_notes.txt 2>/dev/null
export CARGO_TARGET_DIR=$wt/target CARGO_NET_OFFLINE=true
cp $out/demo.rs scnr/tests/seed_demo.rs
echo "== with change: existing suite (without demo)"; mv scnr/tests/seed_demo.rs /tmp/seed_demo_$name.rs
suite=$(cargo test --workspace --no-fail-fast --offline 2>&1 | grep -E "^test result" | tr '\n' ' '); echo "$suite"
mv /tmp/seed_demo_$name.rs scnr/tests/seed_demo.rs
echo "== with change: demo"; d1=$(cargo test --offline -p scnr --test seed_demo 2>&1 | grep -E "^test result" | tr '\n' ' '); echo "$d1"
git stash -q -- scnr/src
echo "== without change: demo"; d2=$(cargo test --offline -p scnr --test seed_demo 2>&1 | grep -E "^test result" | tr '\n' ' '); echo "$d2"
git stash pop -q
echo "== checks against /repo with the patch applied"
cd /repo && git apply $out/patch.diff || { echo "PATCH DOES NOT APPLY TO /repo"; exit 8; }
res=""
for p in $props; do
  o=$(cd /verif && ./check $p 2>&1 | grep -E "^(VIOLATION|OK|UNDECIDED|KNOWN)" | head -3 | cut -c1-300); echo "$p: $o"; res="$res$p: $o\n"
done
git -C /repo checkout -- .
python3 - "$name" "$suite" "$d1" "$d2" "$res" "$props" <<'PY'
import sys, json
name, suite, d1, d2, res, props = sys.argv[1:7]
meta = dict(seed=name, breaks=props.split(), existing_suite_with_change=suite, demo_with_change=d1, demo_without_change=d2,
            checks_with_change=res.replace('\\n', '\n').strip().split('\n'),
            ran=['cargo test --workspace --no-fail-fast --offline (scratch worktree, change applied, demo moved away)',
                 'cargo test --offline -p scnr --test seed_demo (with / without the change)',
                 'git -C /repo apply patch.diff; ./check <prop>; git -C /repo checkout -- .'],
            needs=open('/verif/seeded/%s/agent_notes.txt' % name).read() if __import__('os').path.exists('/verif/seeded/%s/agent_notes.txt' % name) else '')
json.dump(meta, open('/verif/seeded/%s/meta.json' % name, 'w'), indent=1)
PY
