"""property -> units table, assumption ledger (DESIGN.md section 7)"""

GLOBAL_TRUSTED = [
    'Verus 0.2026.09.13 (VC generator, vstd std-library specifications), Z3',
    'units/common/std_prelude.rs: assume_specification contracts and axioms for std items vstd does not specify',
    'extraction rules E1-E15 (tools/extract.py; DESIGN.md section 2.1) preserve meaning, U1-U6 are trusted cuts or trusted std contracts through wrappers; rewrites applied are listed per run in build/<unit>.rewrites.json',
]
GLOBAL_ASSUMPTIONS = [
    'machine integers are NOT treated as mathematical: every usize/u32 operation carries an overflow obligation',
    'derived PartialEq/Eq/Clone/Hash on id and value types are structural (rule E4)',
]

PROPS = {}

# unit groups: a property is checked on EVERY unit holding a function its statement depends on (callers see contracts only, so a change inside a callee
# is noticed only by the unit that verifies the callee's body)
SCAN = ['u_dfa', 'u_mode', 'u_iter', 'u_api']
BUILD = ['u_nfa', 'u_mp', 'u_sub', 'u_elim', 'u_mini', 'u_glue', 'u_lang', 'u_build', 'u_reg']


def thorough_extra(prop, seed, results):
    """thorough tier: the replay searcher is run proactively as a cross-check of the SPECIFICATION (not as a decider):
    if the real code and the pattern-level reference disagree on the unchanged tree while every obligation is discharged,
    a contract, an assumption or the reference is wrong -> undecided (exit 2), to be investigated."""
    import os
    import searcher
    repo = os.environ.get('VERIF_REPO', '/repo')
    if prop not in searcher.FAMILIES:
        return []
    try:
        summary, fi = searcher.search(prop, seed, 'thorough', repo)
    except Exception as ex:
        return [dict(kind='searcher cross-check', error=repr(ex))]
    out = dict(kind='searcher cross-check (bounded exploration of the real crate against a pattern-level reference; not counted as proof)', summary=summary)
    if fi is not None:
        if all(r.status == 'ok' for r in results):
            out['undecided'] = 'specification cross-check: real code and reference model disagree although all obligations are discharged: %s' % (fi['disagreement'][:300])
        out['failing_input'] = fi
    return [out]


HOOK_COMMITS = []


def reg(pid, units, explanation, assumptions=(), level_text='', level_note='', technique='', design_ref='', standin_always=()):
    PROPS[pid] = dict(standin_always=list(standin_always), units=units, explanation=explanation, assumptions=list(assumptions), level_text=level_text or explanation,
                      level_note=level_note or '; '.join(assumptions), technique=technique or 'Verus function contracts on mechanically extracted code',
                      design_ref=design_ref or 'DESIGN.md section 3 ' + pid)


NOT_BUILT = 'planned unit not built (DESIGN.md section 8): no contract on this code is discharged yet, so the property is not claimed'
NOT_APPLICABLE = {
    'C14': 'concurrency: Kani has no thread support and Verus would need its own permission types in place of RwLock/LazyLock/Arc (a rewrite, i.e. a model)',
    'C16': 'behaviour lives in the expansion of serde derives and in serde_json; there is no function of scnr to put a contract on',
    'C18': 'output is produced through format!/escape_debug and the drop-driven dot_writer builder; no string-formatting or drop-order reasoning in Verus, CBMC cost dominated by fmt',
}


WF = 'wf(compiled automaton): state/end_state vectors same non-zero length, transition targets in range, accepting token types listed in terminal_ids, lookahead automata well-formed and lookahead-free. PRODUCER SIDE PROVED in unit U-build (checked under C01, C02, C06, C07): ScannerImpl::try_from ensures scanner_wf for every valid configuration within the size assumptions (theorem_dfa_built_wf: what CompiledDfa::try_from_patterns returns is wf), the transition lists being those of the configuration'
CLS = 'the class predicate closure is deterministic and may be called with every class id the automaton refers to (cls_functional(f, d)): PROVED for the closure CharacterClassRegistry::create_match_char_class returns (unit U-reg: callable on every registered id = the bound of its unsafe get_unchecked; answers leaf_sem of the registered leaf) and ESTABLISHED by ScannerImpl::try_from for every mode (unit U-build, theorem_scanner_classes_registered); assumed: cls_returns (a call of the predicate within its precondition has an outcome), std contract of <[T]>::get_unchecked'

ITER = 'fm_inv(iterator): cursor on a char boundary of the input, line_offsets sorted true line starts beginning with 0, last_char consistent with the char before the cursor (established by FindMatchesImpl::new, preserved by every method; proved)'
UTF8 = 'UTF-8 bridge axioms (units/common/str_prelude.rs): byte offsets of char prefixes are char boundaries, byte length = sum of encoded lengths, slicing at such an offset splits the char sequence there'
C02DEP = 'every scan-side statement is over the relations acc / la_ok / cand of the compiled automaton (units/common/dfa_match.rs). What these mean for the patterns is PROVED in unit U-build: theorem_scanner_cand: for mode k of a scanner built by ScannerImpl::try_from, cand(core(dfa), cls, text, l, tid) <==> p_cand(patterns of mode k, lf, text, l, tid) (some pattern with token type tid matches the first l characters and the lookahead of the LAST pattern with that token type that carries one agrees with the rest), under the hypotheses of C02: cls_ok (class predicate = leaf meaning on the final registry), lf_respects, the parser (spec_parse), the size assumptions modes_fit'

reg('C01', SCAN + BUILD + ['u_c01find'],
    'find_from ensures find_post (longest accepted non-empty prefix; ties -> first in terminal_ids) for every wf automaton, class predicate and input; ScannerImpl::find_from/peek_from the same for the active mode; next_match ensures is_next_tok: the token is the find_post outcome at the first char index >= cursor that has any candidate, skipped positions have none, spans absolute (add_offset), cursor moves to the token end; None only if no position has a candidate; lemma_stream_unique: for lookahead-free configurations the whole stream (stream_from = chain of is_next_tok with the mode following the transitions) is a function of configuration, input, position and mode ("exactly the tokens")',
    [WF, CLS, ITER, UTF8, C02DEP, 'add_patterns (token type = pattern index) is not under contract: Vec<Pattern> construction through iterator adapters',
     'KNOWN FINDING D10 (genuine defect, not repaired; known_findings.txt, findings/D10_tie_by_token_type.json): ties are resolved by the first position of the candidate\'s TOKEN TYPE in the mode\'s list (priority_of), which is the position of the pattern only when the token types of the mode are pairwise distinct (theorem_scanner_prio, under tt_distinct); a pattern sharing its token type with an earlier pattern wins ties against the patterns in between. Unit U-c01find carries the obligation without that hypothesis; it fails on every run and is reported as KNOWN-FINDING'],
    technique='Verus function contracts (requires/ensures/loop invariants) on code extracted from /repo each run')
reg('C04', SCAN + BUILD + ['u_c04find'],
    'a reported token is a cand: accepted by its pattern automaton AND la_ok(tid, rest at token end) (positive: some non-empty prefix of the rest matched by the lookahead automaton; negative: none; empty rest => positive fails); span end = start + own bytes (lookahead never inside); converse: find_post forbids None while a candidate exists; call sites next_match/peek_n establish that the haystack slice and the iterator indices refer to the same text for every offset (ci_at precondition of find_from)',
    [WF, CLS, ITER, UTF8, C02DEP,
     'KNOWN FINDING D9 (genuine defect, not repaired; known_findings.txt, findings/D9_shared_token_type_lookahead.json): the pattern-level reading of C04 (every pattern gated by ITS OWN lookahead, theorem_scanner_cand) holds only for modes in which patterns sharing a token type carry the same lookahead (la_consistent): lookaheads are stored per token type, the last one wins and gates all patterns of that token type (proved: lemma_scanner_cand_last). Unit U-c04find carries the property-faithful obligation without that hypothesis; it fails on every run and is reported as KNOWN-FINDING'])
reg('C05', ['u_dfa', 'u_mode'] + BUILD + ['u_c01find'], 'find_post: the reported (length, token type) is one candidate with satisfied lookahead that is no_better-maximal in extent = own bytes + longest positive-lookahead match, ties by first position in terminal_ids; all unwrap/index/overflow obligations of find_from, priority_of, satisfies_lookahead', [WF, CLS, C02DEP, 'the pattern-level reading (which pattern a candidate belongs to, whose lookahead it carries) holds for modes in which patterns sharing a token type carry the same lookahead; otherwise see known finding D9 under C04',
     'KNOWN FINDING D10 (genuine defect, not repaired; known_findings.txt, findings/D10_tie_by_token_type.json): ties are resolved by the first position of the candidate\'s TOKEN TYPE in the mode\'s list (priority_of), which is the position of the pattern only when the token types of the mode are pairwise distinct (theorem_scanner_prio, under tt_distinct); a pattern sharing its token type with an earlier pattern wins ties against the patterns in between. Unit U-c01find carries the obligation without that hypothesis; it fails on every run and is reported as KNOWN-FINDING'])

reg('C06', SCAN + ['u_build'], 'mode after every operation is the function of (old mode, token type, transition list) the property states: has_transition == lookup in the sorted list; find_from switches, peek_from/has_transition/current_mode do not, set_mode sets, reset gives 0', [WF, 'set_mode(m) is called with m < number of modes (documented precondition)'])

reg('C10', SCAN,
    'set_offset/with_offset(o): o on a char boundary or beyond the input => cursor at min(o, len) on that boundary, offset field clamped, mode/scanner/line_offsets unchanged, nothing else of the old cursor survives (fm_inv re-established from the arguments only); advance_to(p) with p the end of a peeked match lands exactly on p, absolute (lemma_adv_target_boundary); next_match/peek_n contracts are functions of the abstract state only',
    [ITER, UTF8, WF])

reg('C07', SCAN + ['u_sub', 'u_mp', 'u_elim', 'u_glue', 'u_mini', 'u_build', 'u_reg'],
    'spans non-empty (l >= 1), start/end are byte offsets of char indices of the input (boff), start >= previous end (cursor monotone), Some(m) => cursor strictly advances, None => cursor at end and stays there (no_more); absence of panics while scanning = every index/unwrap/overflow/slice-boundary obligation of the functions under contract. '
    'Build side (partial): every index / unwrap / expect / panic! / overflow obligation and the termination of the build functions under contract (closure layer, multi-pattern union, epsilon-elimination worklists, minimizer, lookahead glue: units U-sub, U-mp, U-elim, U-mini, U-glue) is discharged for automata that fit the 32-bit state ids: the four panic!("State .. not found") / "NFA for target state not found" sites and `.expect("NFA not found")` are unreachable, the worklists terminate; in the minimizer every unwrap (find_group, first(), position(), get_mut), every index and the panic! of renumber_states_in_transitions are unreachable and the refinement loop terminates',
    [WF, CLS, ITER, UTF8, 'build side NOT decided for: regex-syntax parser, ScannerBuilder; create_match_char_class and its unsafe get_unchecked are under contract (unit U-reg); Nfa::try_from_ast is covered by C02/C15 (unit U-nfa: overflow obligations under th_fits); size preconditions th_fits / mp_fits (automata within 32-bit state ids) are assumed, beyond them ids wrap (C17)'])
reg('C09', SCAN,
    'position(o): line = 1 + number of line breaks before o and column = o - line start + 1 whenever all line starts up to o are recorded (complete_upto), or the permitted same-line alternative right after a line break; next_match/advance_to record every line start of the consumed region; set_offset recomputes last_char; merge keeps line_offsets sorted, duplicate free, true line starts',
    [ITER, UTF8, 'WithPositions::next itself (generic over the inner iterator) is not under contract; its two calls are position(m.start()) and position(m.end()) after next()'])
reg('C11', SCAN,
    'peek_n: final state equals old state on every field that determines later results (char_indices, offset, line_offsets, last_char, last_position, mode; scanner config same up to scratch buffers); outcome classified exactly: Matches <=> n tokens none switching; MatchesReachedModeSwitch <=> last token has a transition to the reported mode (not entered); MatchesReachedEnd <=> 0 < k < n tokens then no_more; NotFound <=> no token at all; the tokens are toks_from = the same is_next_tok chain next() is specified by',
    [WF, CLS, ITER, UTF8])
reg('C12', SCAN,
    'every operation contract gives result and new state as a function of (old abstract state, arguments, immutable configuration): scratch buffers are not part of DfaCore and find_from clears them (its postcondition does not mention their old value); FindMatchesImpl::new yields (input, cursor 0, mode 0) for any scanner value, whatever mode it was in',
    [WF, CLS, ITER, 'Scanner::find_iter hands a clone to the iterator: derived Clone copies (E4 assumption); two iterators share only Arc<..> data that is immutable through & (Rust aliasing rules, type-level argument)'])

reg('C17', ['u_min'],
    'every conversion between a group/state index and its id type in the minimizer is the identity for indices up to the width of StateID: find_group returns the index of the first group containing the state (not its value modulo the id width); one generated losslessness obligation per `as StateGroupIDBase` / `as StateIDBase` cast in minimizer.rs and compiled_dfa.rs',
    ['automata have at most u32::MAX states (width of StateID; not reachable in addressable memory)', 'derived Ord on StateID is the integer order (BTreeSet key model)',
     'that the rest of the minimizer is correct is property C03 (unit U-mini)'],
    technique='Verus function contract on find_group + self-generated cast-losslessness obligations')

reg('C03', ['u_mini', 'u_elim'],
    'every function of Minimizer (minimizer.rs, no function left as a stub) is under contract: calculate_initial_partition (non-accepting states in group 0, accepting states grouped by token type), '
    'build_transitions_to_partition_group / split_group / calculate_new_partition (pieces of a group have equal (class, target group) signatures; order kept; no growth means unchanged), '
    'the refinement loop of minimize (terminates at a stable partition), create_from_partition, add_representative_state, merge_transitions(_of_state), renumber_states_in_transitions, update_transitions '
    '(the result is the quotient automaton: state g has an edge (cc, h) exactly when a member of group g has an edge on cc into group h; end-state entries are those of the members; group 0 holds state 0). '
    'Minimizer::minimize ensures minimized(dfa, r) (r is the quotient by a stable, acceptance-homogeneous partition whose group 0 holds the start state) and r.states.len() <= dfa.states.len(); '
    'theorem_quotient_language / theorem_minimize_language (spec level, by induction over the word) conclude: for every class predicate, every string and every token type, r accepts exactly when dfa accepts, both from state 0.',
    ['call sites: impl From<Nfa> and impl From<MultiPatternNfa> for CompiledDfa (unit U-elim, the only callers) establish d_wf for the automaton they pass, for NFAs with fewer than u32::MAX states; every automaton that reaches the minimizer while a scanner is built comes from one of the two',
     'precondition of Minimizer::minimize: d_wf(dfa) only (>= 1 state, fewer than u32::MAX states, one end-state entry per state, targets are states); an accepting start state and an initial partition with an empty group of non-accepting states are covered',
     'TRUSTED std contracts through external_body wrappers (rule U5): BTreeMap::into_values().collect(), Vec<BTreeSet>::ne / clone, Vec<StateID>::clone, BTreeMap<CharClassID, Vec<StateID>>::clone, BTreeMap::keys().cloned().collect()',
     'axioms: BTreeSet<StateID>/BTreeMap<StateID,_> iterate in ascending id order and BTreeSet::first is the least element (derived Ord of the id newtype), clone of StateData / (bool, TerminalID) / BTreeSet<StateID> is the identity on views (vec![e; n]), sort/dedup contracts (units/common/sort_specs.rs)',
     'rewrites E11/E13/E14/E15 (iterator adapters, entry API, values_mut as their std definitions) are equivalences by the std documentation, not proved',
     'lookaheads, terminal_ids and patterns are carried over unchanged (proved as frame conditions); lookahead automata are minimized by their own minimize call'],
    technique='Verus function contracts + loop invariants on every Minimizer function; quotient-language theorem as a spec-level lemma')

reg('C13', ['u_cache', 'u_build'],
    'ScannerCache::get relative to an abstract compile(modes): a hit and a miss both return exactly compile(modes); a failing build returns the error and leaves the cache unchanged (insertion only after success); entries are never overwritten; the key types still derive PartialEq/Eq/Hash field-wise (checked mechanically: derives present, no hand-written impl)',
    ['compile is a deterministic function of the mode list (the build layer is not under contract)',
     'TRUSTED replacements: `modes.try_into()` -> verif_compile, the unsafe `(*Arc::as_ptr(scanner)).clone()` -> verif_clone_arc_target (returns a copy of the pointee)',
     'derived Hash/Eq/Clone of ScannerMode, Pattern, Lookahead are field-wise and obey vstd key model; Vec<T>: Borrow<[T]> lookups compare element-wise (axiom_slice_key)',
     'the two compile paths (build() goes through ScannerCache::get -> TryFrom<&[ScannerMode]>, build_uncached() through TryFrom<Vec<ScannerMode>>) are both under contract in unit U-build with the SAME postcondition scanner_built(modes, s): mode k is the compiled form of mode k of the configuration (token types, lookaheads and transitions included), which determines scanning behaviour (theorem_built_scanner_acc / theorem_built_scanner_cand)',
     'ScannerBuilder::build / SimpleScannerBuilder::build (lock + get) are not under contract'],
    technique='Verus function contract + data-structure invariant on the cache map; derive-presence check')

reg('C08', ['u_class', 'u_reg'],
    'membership in a bracketed class is the boolean combination of its items, for every char and every nesting depth: literals (only themselves), ranges (inclusive), nested classes, union, && -- ~~ and negation at item, bracket and binary-operator level, by structural recursion over the imported regex_syntax AST; named items (\\d \\s \\w, [:alpha:], \\p{..}) are uninterpreted leaves that contribute exactly the set they denote alone',
    ['the MatchFn wrapper (Box<dyn Fn(char)->bool>, new/inner) is trusted: `x.inner()(c)` is read as the value of the boxed closure',
      'top level (unit U-class): MatchFunction::try_from(&Ast): Dot = everything except \\n \\r, Literal = lit_in, bracketed / perl / unicode nodes = their class meaning, any other node is rejected; unit U-reg: the predicate the scanner evaluates (create_match_char_class) is leaf_sem of the registered AST for every registered id',
     'PROVED: TryFrom<&ClassPerl> and the [:class:] arm (ClassPerl / ClassAscii imported transparently): \\D \\S \\W and [:^class:] are the complements of \\d \\s \\w and [:class:] (named_perl / named_ascii defined through the std predicate the code calls per kind); lemma_perl_ascii: on ASCII \\s = [\\t\\n\\x0B\\x0C\\r ] (vstd contract of char::is_whitespace) and \\d = [0-9] (trusted std fact axiom_is_numeric_ascii)', 'TRUSTED leaves: the \\w / [:word:] closure (seshat join_c / gc tables; \\w on ASCII is NOT decided) and TryFrom<&ClassUnicode> (seshat predicates behind a string match); std contracts mapping char::is_numeric / is_alphanumeric / is_alphabetic / is_ascii* / is_lowercase / is_uppercase to uninterpreted predicates', 'regex_syntax::ast types are what the crate (0.8.x in the offline registry) declares'],
    technique='Verus function contracts by structural recursion over the imported AST; closure contracts generated from closure bodies')

reg('C15', ['u_ast', 'u_class', 'u_reg'],
    'Nfa::try_from_ast returns Err for every AST that contains, at any depth, a construct documented as unsupported: flags (?i), assertions (anchors, word boundaries), non-greedy repetition, flagged non-capturing groups - by structural recursion over the imported regex_syntax AST (Concat/Alternation loops with invariants, {m,n} expansion loops terminate)',
    ['NOT decided: "never panics" and "supported patterns always build" for the whole pipeline (needs the internal invariants of C02/C03); look-around syntax and syntax errors are rejected by regex_syntax::Parser (trusted); unknown or valued Unicode classes are rejected in TryFrom<&ClassUnicode> for MatchFn (a trusted leaf of U-class); that EVERY registered leaf passes through that validation is proved in units U-class / U-reg (MatchFunction::try_from(&Ast) rejects every node that is not a class leaf; create_match_char_class converts every registry entry or fails; ComparableAst::eq identifies class nodes only when they print identically)',
     'bounded stand-in on every run (family unsupported; labelled, not proof) for the code cut out of the units: error-message construction (U3/U4), the parser, TryFrom<&ClassUnicode>',
     'the NFA combinators called by try_from_ast are opaque stubs (signatures extracted); error-message construction and AST Display are trusted replacements',
     'MultiPatternNfa::try_from_patterns / parse_regex_syntax (the path from a pattern string to try_from_ast) are not under contract'],
    technique='Verus function contract by structural recursion over the imported AST + bounded stand-in for the error paths cut out of the units',
    standin_always=['unsupported'])

reg('C02', ['u_nfa', 'u_sub', 'u_mp', 'u_elim', 'u_glue', 'u_lang', 'u_mini', 'u_build', 'u_reg'],
    'the build pipeline from the pattern text to the minimized automaton, as structural refinement of four specified constructions (Thompson, union, epsilon elimination, quotient). (1) Thompson layer (U-nfa): every NFA combinator and Nfa::try_from_ast produce EXACTLY thompson(ast, registry) (state vector, epsilon and class edges, start/end, {m,n} expansion, leaves registered left to right). '
    '(2) Union (U-mp): MultiPatternNfa::try_from_patterns yields mp_wf: pattern i is the Thompson automaton of its parsed text renumbered to its own id range [mp_off(i), mp_off(i+1)), ranges disjoint and ascending from 1, start transitions and token types in pattern order. '
    '(3) Closure layer (U-sub): Nfa::epsilon_closure returns exactly the reflexive-transitive epsilon closure (sorted, duplicate free), find_state/contains_state/find_nfa/is_accepting_state are the first-match lookups, get_match_transitions returns exactly the (class, target) pairs leaving the given states, for one Nfa and for the union (state 0 fans out to the pattern start states); every panic! in these functions is unreachable. '
    '(4) Epsilon elimination (U-elim): impl From<Nfa> and impl From<MultiPatternNfa> for CompiledDfa hand the minimizer EXACTLY the epsilon-elimination automaton: one state per distinct closure of the start state / of a transition target (injective numbering in discovery order, state 0 = closure of the start), S --cc--> closure(t) iff some member of S has the transition (cc, t), no duplicate edges, a state is accepting iff it can be entered and its closure holds an end state (so the start state alone never accepts: the empty string is not accepted), with the token type of the owning pattern; terminal_ids in pattern order; every closure a state can move to has its own state; the worklist terminates. '
    '(5) Minimizer (U-mini, property C03): every function of minimizer.rs under contract; Minimizer::minimize returns the quotient of its argument by a stable partition that never merges states of different token types, group 0 holding the start state; both From impls establish its precondition d_wf. (6) Glue (U-glue): CompiledLookahead::try_from_lookahead returns the polarity of the lookahead and minimize(epsilon-elimination(Thompson(parse(lookahead text)))); CompiledDfa::try_from_patterns returns minimize(epsilon-elimination(union)) with, per token type, the compiled lookahead of the LAST pattern carrying one (HashMap::insert overwrites), built on the registry as left by the patterns before it; add_lookahead changes nothing but the lookahead map',
    ['PROVED at spec level (theorem_elim_language, units/u_elim/elim_lang.rs, re-checked on every run): for every abstract epsilon-NFA g, every automaton d with elim_ok(g, d, reps), every class predicate and every non-empty word, d (read as find_from reads it: d_step/d_reach/d_acc) accepts exactly the token types g accepts (g_lands/g_acc: closures folded into reach); the empty word reaches only the start state, which is never accepting on its own account',
     'PROVED at spec level (theorem_thompson_language, unit U-lang, re-checked on every run): for every AST a (regex_syntax::ast::Ast), registry reg with th_fits, class predicate cls that agrees with the leaf meaning lf on (any extension of) the resulting registry, and lf compatible with the registry\'s ComparableAst equality: thompson(a, reg).0 accepts w (a run from start to end over epsilon and class edges, units/u_lang/lang_path.rs) iff re_lang(a, lf, w), where re_lang is the textbook meaning of the AST (Empty, leaves = one character, Concat, Alternation, ?, *, +, {c} = c copies, {c,} = c copies then any number, {l,m} = l copies then m-l optional copies, Group); every Thompson automaton is `nice` (well formed, end state without outgoing edges)',
     'PROVED at spec level (unit U-glue, glue_lang.rs, re-checked on every run): theorem_single_pattern_language: for the Nfa returned by try_from_ast for an AST and every elim_ok automaton d0 of it (= what From<Nfa> hands the minimizer; every lookahead automaton), every non-empty word w and token type tid: d_acc(d0, cls, w, tid) <==> re_lang(ast, lf, w) and tid is the pattern\'s token type. theorem_union_language: for the union m built by try_from_patterns (mp_built) and every elim_ok automaton d0 of it (= what From<MultiPatternNfa> hands the minimizer): d_acc(d0, cls, w, tid) <==> some pattern i of the mode has token type tid and re_lang(spec_parse(pattern i), lf, w). Proved through the bridge between runs of the Thompson view and the closure-folded runs of the graph view for renumbered NFAs (shifted_view, lemma_n_accepts) and lemma_mp_lands (landing in the union = landing in one pattern NFA)',
     'PROVED at spec level, END TO END THROUGH THE MINIMIZER (glue_lang.rs, re-checked on every run): theorem_single_pattern_minimized: for the automaton dm that From<Nfa> returns (min_of(d0, dm): contract of Minimizer::minimize, proved in U-mini) d_acc(dm, cls, w, tid) <==> re_lang(ast, lf, w) and tid is the pattern\'s token type; theorem_union_minimized: for the automaton d that CompiledDfa::try_from_patterns returns (states and end states of the minimized union, lookahead map filled in afterwards) d_acc(d, cls, w, tid) <==> some pattern of the mode with token type tid matches w; via theorem_minimize_language / theorem_quotient_language (units/u_mini/mini_spec.rs)',
     'PROVED (the two remaining clauses of the property, units U-lang / U-build, spec level): theorem_scanner_classes_registered: every class id on a transition of a mode automaton or of one of its lookahead automata is an index into the final registry of the scanner (the one stored in the scanner and handed to create_match_char_class; ScannerImpl::try_from ensures s.character_classes.view() == final_reg(modes)), via theorem_thompson_classes_registered and its preservation by shift, union, epsilon elimination and quotient; theorem_scanner_empty_not_accepted: no mode automaton and no lookahead automaton accepts the empty string (state 0 is never entered: in the union nothing leads to state 0, in a Thompson automaton no edge leads to the start state - theorem_thompson_start_fresh; group 0 of the quotient holds state 0 and groups are acceptance-homogeneous)',
     'PROVED (units U-reg, U-class, U-build): the hypotheses cls_ok / lf_respects of the language theorems hold for the real class predicate: CharacterClassRegistry::create_match_char_class ensures cls_built (every outcome of f(id, c) is leaf_sem(registry[id], c), f callable on every registered id), impl PartialEq for ComparableAst computes same_class (now defined: same kind and same printed text for class nodes, same c and kind for literals), lemma_leaf_sem_respects, theorem_built_cls_ok, and the instantiations theorem_built_scanner_acc / theorem_built_scanner_cand for the scanner ScannerImpl::try_from returns with its own predicate; remaining hypothesis cls_returns (a call of the predicate has an outcome), trusted axiom_print_faithful (class nodes of one kind that regex-syntax prints identically denote the same set), trusted cut U7 (the string comparison); what regex-syntax\'s parser returns for a pattern text (spec_parse) is uninterpreted',
     'PROVED (unit U-build): CompiledScannerMode::try_from_scanner_mode and both impl TryFrom<..> for ScannerImpl: the scanner has one compiled mode per mode of the configuration, in order, each being dfa_built (the postcondition of CompiledDfa::try_from_patterns) for its patterns on the registry left by the modes before it (mode_reg), name and transitions carried over, current mode 0, and scanner_wf; theorem_mode_language: mode k accepts (w, tid) iff some pattern of mode k with token type tid matches w',
     'NOT under contract (bounded stand-in only, see coverage.bounded_stand_in): the regex-syntax parser, ScannerBuilder / Scanner::try_new above ScannerImpl::try_from',
     'TRUSTED std contracts given through wrappers (rule U5, the call is moved verbatim into an external_body function): BTreeSet::from_iter(Vec), btree_set::Iter::cloned, HashSet::into_iter, `map.iter().find(|(_, v)| **v == id).unwrap().0.clone()`; trusted contracts sort_unstable / sort_by_key / dedup (permutation, adjacent-duplicate removal), <[T]>::contains',
     'TRUSTED axioms: derived Ord of the id newtypes and of (CharClassID, StateID) is the integer / lexicographic order; BTreeSet<StateID> as a hash key has the equality of its element set; Clone of (bool, TerminalID) is the identity; FxBuildHasher builds valid hashers',
     'TRUSTED CUTS: the Err arm of try_from_patterns (message rebuilt with the pattern index) is replaced by returning an opaque error (U4); the debug `patterns` text of the compiled automaton is opaque (U6); regex-syntax\'s parser is external (spec_parse uninterpreted)',
     'derived Clone/Default of Nfa, NfaState, Literal, Span, Ast, Pattern are field-wise',
     'preconditions: automata fit the 32-bit state ids and have fewer than u32::MAX states (th_fits / mp_fits / la_fit1 and mp_off(all) < u32::MAX: precondition d_wf of the minimizer); Nfa::get_match_transitions indexes the state vector by id, so it is only correct for unshifted automata (n_off == 0), which is how From<Nfa> uses it'],
    level_text='proof that the code implements the four specified constructions exactly (Thompson, union, epsilon elimination, quotient by a stable partition) and chains them from the pattern text to the minimized automaton, lookaheads included; the language theorems of all four are proved at spec level and composed end to end; the parser, the class-predicate layer and the mode/registry layer above are covered only by a bounded stand-in that is run on every check and labelled as such',
    technique='Verus function contracts and loop invariants against spec-level constructions (structural refinement), one abstract epsilon-NFA instantiated for Nfa and MultiPatternNfa + bounded stand-in for the functions out of reach',
    standin_always=['stream', 'lookahead', 'la_compete', 'finite', 'regex'])
