"""property -> units table, assumption ledger (DESIGN.md section 7)"""

GLOBAL_TRUSTED = [
    'Verus 0.2026.09.13 (VC generator, vstd std-library specifications), Z3',
    'units/common/std_prelude.rs: assume_specification contracts and axioms for std items vstd does not specify',
    'extraction rules E1-E9 (tools/extract.py) preserve meaning; rewrites applied are listed per run in build/<unit>.rewrites.json',
]
GLOBAL_ASSUMPTIONS = [
    'machine integers are NOT treated as mathematical: every usize/u32 operation carries an overflow obligation',
    'derived PartialEq/Eq/Clone/Hash on id and value types are structural (rule E4)',
]

PROPS = {}


def thorough_extra(prop, seed, results):
    return []


HOOK_COMMITS = []


def reg(pid, units, explanation, assumptions=(), level_text='', level_note='', technique='', design_ref=''):
    PROPS[pid] = dict(units=units, explanation=explanation, assumptions=list(assumptions), level_text=level_text or explanation,
                      level_note=level_note or '; '.join(assumptions), technique=technique or 'Verus function contracts on mechanically extracted code',
                      design_ref=design_ref or 'DESIGN.md section 3 ' + pid)


NOT_BUILT = 'unit not built yet in this session (see DESIGN.md work plan)'
NOT_APPLICABLE = {
    'C01': NOT_BUILT, 'C02': NOT_BUILT, 'C04': NOT_BUILT, 'C07': NOT_BUILT, 'C08': NOT_BUILT, 'C09': NOT_BUILT,
    'C10': NOT_BUILT, 'C11': NOT_BUILT, 'C12': NOT_BUILT, 'C13': NOT_BUILT, 'C15': NOT_BUILT, 'C17': NOT_BUILT,
    'C03': 'partition refinement is written as closure chains over BTreeMap<StateID, BTreeMap<CharClassID, Vec<StateID>>>; Verus cannot ingest it without a rewrite that would be a model, and the Kani stand-in did not terminate at 3 states x 2 classes (25 min, 5.7 GB)',
    'C14': 'concurrency: Kani has no thread support and Verus would need its own permission types in place of RwLock/LazyLock/Arc (a rewrite, i.e. a model)',
    'C16': 'behaviour lives in the expansion of serde derives and in serde_json; there is no function of scnr to put a contract on',
    'C18': 'output is produced through format!/escape_debug and the drop-driven dot_writer builder; no string-formatting or drop-order reasoning in Verus, CBMC cost dominated by fmt',
}


WF = 'wf(compiled automaton): state/end_state vectors same non-zero length, transition targets in range, accepting token types listed in terminal_ids, lookahead automata well-formed and lookahead-free (producer side = build layer, not proved)'
CLS = 'the class predicate closure is a total deterministic function of (class id, char) (cls_functional)'

reg('C05', ['u_dfa'], 'find_post: the reported (length, token type) is one candidate with satisfied lookahead that is no_better-maximal in extent = own bytes + longest positive-lookahead match, ties by first position in terminal_ids; all unwrap/index/overflow obligations of find_from, priority_of, satisfies_lookahead', [WF, CLS])

reg('C06', ['u_mode'], 'mode after every operation is the function of (old mode, token type, transition list) the property states: has_transition == lookup in the sorted list; find_from switches, peek_from/has_transition/current_mode do not, set_mode sets, reset gives 0', [WF, 'set_mode(m) is called with m < number of modes (documented precondition)'])

reg('C10', ['u_iter'], 'WORK IN PROGRESS', [WF])
