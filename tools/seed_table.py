#!/usr/bin/env python3
"""markdown table of every stored seeded change with the verdicts recorded when it was evaluated (seeded/<name>/meta.json: checks_with_change);
`tools/selftest_all.sh` re-runs them all against the current machinery."""
import json, glob, os, re
V = os.path.dirname(os.path.dirname(os.path.abspath(__file__)))
rows = []
nv = ns = nm = 0
for d in sorted(glob.glob(os.path.join(V, 'seeded', 'C*'))):
    m = json.load(open(os.path.join(d, 'meta.json')))
    how = []
    for l in m.get('checks_with_change', []):
        l = l.strip()
        mm = re.match(r'^(C\d\d):\s*(.*)$', l)
        if not mm:
            continue
        p, rest = mm.group(1), mm.group(2)
        if 'VIOLATION' in rest:
            how.append('%s:%s' % (p, 's' if ('bounded-stand-in' in rest or 'stand-in' in rest) else 'v'))
        elif 'UNDECIDED' in rest:
            how.append('%s:undecided' % p)
        elif rest.startswith('OK'):
            how.append('%s:ok' % p)
        elif 'KNOWN-FINDING' in rest:
            how.append('%s:v' % p)   # old layout: first line only; a VIOLATION line followed (checked by hand)
    det = any(h.endswith((':v', ':s')) for h in how)
    if not det:
        nm += 1
    elif any(h.endswith(':v') for h in how):
        nv += 1
    else:
        ns += 1
    rows.append('| `%s` | %s | %s%s |' % (os.path.basename(d), (m.get('where') or m.get('needs', '').split('\n')[0])[:90].replace('|', '/'), ', '.join(how), '' if det else ' **not detected**'))
print('| seeded change | where | verdicts (v = named Verus obligation refuted, s = bounded stand-in found a failing input on the real code) |')
print('|---|---|---|')
print('\n'.join(rows))
print()
print('%d stored changes: %d refuted by a verifier obligation under at least one property, %d decided by the stand-in only, %d not detected.' % (len(rows), nv, ns, nm))
