#!/usr/bin/env python3
"""dev helper: extract + verify ONE unit (no canaries), print diagnostics.  usage: tools/dev.py <unit> [--canary] [--fn NAME]"""
import os, sys
sys.path.insert(0, os.path.dirname(os.path.abspath(__file__)))
import check

def main():
    name = sys.argv[1]
    canary = '--no-canary' not in sys.argv  # canaries on by default: the canary variant goes through its own extraction and can fail where the plain one does not
    ur = check.process_unit(name, canary, os.path.join(check.BUILD, 'dev'))
    print('status', ur.status, 'groups', len(ur.groups or {}), 'wall %.1fs' % ur.wall, 'verified', getattr(ur, 'verified', None))
    if ur.status != 'ok':
        print(ur.reason[:6000])
        for e in ur.failed[:12]:
            print('---', e.get('obligation'), e['at'])
            print(e['text'][:1800])
    slow = sorted(((v.get('time', 0), g) for g, v in (ur.groups or {}).items()), reverse=True)[:5]
    print('slowest', slow)
    return 0 if ur.status == 'ok' else 1

sys.exit(main())
