"""Minimal Rust lexer + token-pattern matcher used by the extractor.

The extractor never re-prints code from tokens: tokens only carry byte offsets into the original
source text, so everything that is copied is copied byte-for-byte.
"""
import re

OPEN = {'(': ')', '[': ']', '{': '}'}
CLOSE = {')': '(', ']': '[', '}': '{'}

PUNCT3 = ['<<=', '>>=', '...', '..=']
PUNCT2 = ['::', '->', '=>', '==', '!=', '<=', '>=', '&&', '||', '+=', '-=', '*=', '/=', '%=', '^=', '&=', '|=',
          '..', '<<']
# note: '>>' is deliberately lexed as two '>' so that generics close properly.

_ident = re.compile(r'[A-Za-z_][A-Za-z0-9_]*')
_num = re.compile(r'[0-9][0-9A-Za-z_]*(\.[0-9][0-9A-Za-z_]*)?')


class Tok:
    __slots__ = ('kind', 'text', 's', 'e')

    def __init__(self, kind, text, s, e):
        self.kind = kind  # id, num, str, chr, life, punct, doc, hole
        self.text = text
        self.s = s
        self.e = e

    def __repr__(self):
        return 'Tok(%s,%r,%d)' % (self.kind, self.text, self.s)


class LexError(Exception):
    pass


def lex(src, keep_doc=False, holes=False):
    """Tokenise Rust source. Comments are skipped (doc comments too unless keep_doc).
    With holes=True, `$name` is lexed as a hole token (pattern language)."""
    toks = []
    i = 0
    n = len(src)
    while i < n:
        c = src[i]
        if c.isspace():
            i += 1
            continue
        if src.startswith('//', i):
            j = src.find('\n', i)
            if j < 0:
                j = n
            if keep_doc and (src.startswith('///', i) or src.startswith('//!', i)) and not src.startswith('////', i):
                toks.append(Tok('doc', src[i:j], i, j))
            i = j
            continue
        if src.startswith('/*', i):
            depth = 1
            j = i + 2
            while j < n and depth > 0:
                if src.startswith('/*', j):
                    depth += 1
                    j += 2
                elif src.startswith('*/', j):
                    depth -= 1
                    j += 2
                else:
                    j += 1
            i = j
            continue
        if holes and c == '$':
            m = _ident.match(src, i + 1)
            if not m:
                raise LexError('bad hole at %d' % i)
            toks.append(Tok('hole', m.group(0), i, m.end()))
            i = m.end()
            continue
        # raw strings / byte strings
        m = re.match(r'(b?r)(#*)"', src[i:i + 40])
        if m:
            hashes = m.group(2)
            endmark = '"' + hashes
            j = src.find(endmark, i + len(m.group(0)))
            if j < 0:
                raise LexError('unterminated raw string at %d' % i)
            j += len(endmark)
            toks.append(Tok('str', src[i:j], i, j))
            i = j
            continue
        if c == '"' or (c == 'b' and i + 1 < n and src[i + 1] == '"'):
            j = i + (2 if c == 'b' else 1)
            while j < n and src[j] != '"':
                if src[j] == '\\':
                    j += 1
                j += 1
            j += 1
            toks.append(Tok('str', src[i:j], i, j))
            i = j
            continue
        if c == "'" or (c == 'b' and i + 1 < n and src[i + 1] == "'"):
            k = i + (1 if c == 'b' else 0)
            # char literal or lifetime
            if src[k + 1] == '\\':
                j = k + 2
                # escape: \n, \x41, \u{...}, \'
                if src[j] == 'u':
                    j = src.find('}', j) + 1
                elif src[j] == 'x':
                    j += 3
                else:
                    j += 1
                if src[j] != "'":
                    raise LexError('bad char literal at %d' % i)
                j += 1
                toks.append(Tok('chr', src[i:j], i, j))
                i = j
                continue
            if k + 2 < n and src[k + 2] == "'":
                j = k + 3
                toks.append(Tok('chr', src[i:j], i, j))
                i = j
                continue
            m = _ident.match(src, k + 1)
            if m and c == "'":
                toks.append(Tok('life', src[i:m.end()], i, m.end()))
                i = m.end()
                continue
            raise LexError('bad quote at %d' % i)
        m = _ident.match(src, i)
        if m:
            toks.append(Tok('id', m.group(0), i, m.end()))
            i = m.end()
            continue
        m = _num.match(src, i)
        if m:
            # do not swallow the '.' of a range or method call:  0..n  /  1.max(2)
            t = m.group(0)
            if m.group(1) is None and src.startswith('.', m.end()):
                pass
            toks.append(Tok('num', t, i, i + len(t)))
            i += len(t)
            continue
        for p in PUNCT3:
            if src.startswith(p, i):
                toks.append(Tok('punct', p, i, i + 3))
                i += 3
                break
        else:
            for p in PUNCT2:
                if src.startswith(p, i):
                    toks.append(Tok('punct', p, i, i + 2))
                    i += 2
                    break
            else:
                toks.append(Tok('punct', c, i, i + 1))
                i += 1
    return toks


def match_brackets(toks):
    """returns dict open_index -> close_index and close_index -> open_index"""
    st = []
    pair = {}
    for i, t in enumerate(toks):
        if t.kind == 'punct' and t.text in OPEN:
            st.append(i)
        elif t.kind == 'punct' and t.text in CLOSE:
            if not st or toks[st[-1]].text != CLOSE[t.text]:
                raise LexError('unbalanced %s at %d' % (t.text, t.s))
            o = st.pop()
            pair[o] = i
            pair[i] = o
    if st:
        raise LexError('unclosed bracket at %d' % toks[st[-1]].s)
    return pair


class Pattern:
    """A token pattern. `$_` / `$name` match a (possibly empty) bracket-balanced token run, as short as
    possible. `$$` is not supported. Literal tokens compare by text."""

    def __init__(self, text):
        self.text = text
        self.toks = lex(text, holes=True)
        if not self.toks or self.toks[0].kind == 'hole':
            raise ValueError('pattern must start with a literal token: %r' % text)

    def match_at(self, toks, pair, i):
        """try to match at token index i; returns (end_index_exclusive, captures) or None.
        captures: name -> (tok_start_index, tok_end_index_exclusive)"""
        return self._m(toks, pair, i, 0, {})

    def _m(self, toks, pair, i, pi, caps):
        P = self.toks
        while pi < len(P):
            p = P[pi]
            if p.kind != 'hole':
                if i >= len(toks) or toks[i].text != p.text or toks[i].kind == 'doc':
                    return None
                i += 1
                pi += 1
                continue
            # hole: extend minimally, bracket-balanced
            j = i
            while True:
                r = self._m(toks, pair, j, pi + 1, caps)
                if r is not None:
                    end, c2 = r
                    c2 = dict(c2)
                    if p.text != '_':
                        c2[p.text] = (i, j)
                    return end, c2
                if j >= len(toks):
                    return None
                t = toks[j]
                if t.kind == 'punct' and t.text in OPEN:
                    j = pair[j] + 1
                elif t.kind == 'punct' and t.text in CLOSE:
                    return None
                else:
                    j += 1
        return i, caps

    def find_all(self, toks, pair, lo=0, hi=None):
        """all non-overlapping matches with start index in [lo, hi)"""
        if hi is None:
            hi = len(toks)
        out = []
        i = lo
        first = self.toks[0].text
        while i < hi:
            if toks[i].text == first:
                r = self.match_at(toks, pair, i)
                if r is not None and r[0] <= hi:
                    out.append((i, r[0], r[1]))
                    i = max(r[0], i + 1)
                    continue
            i += 1
        return out
