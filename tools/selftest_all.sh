#!/bin/bash
# Re-runs every stored seeded change (seeded/C*) and every harmless refactoring (seeded/harmless/H*) against the current machinery, partitioned over
# scratch worktrees of /repo (created under /tmp and removed afterwards; /repo itself is not touched), and merges the results into evidence/selftest.json.
# usage: tools/selftest_all.sh [partitions=3] [egrep pattern on the names]      (about 3 minutes per change and partition on 16 cores; do not oversubscribe: 3-4 partitions)
# with a pattern the merged result goes to /tmp/selftest_subset.json instead of evidence/selftest.json
cd "$(dirname "$0")/.."
n=${1:-3}
pat=${2:-.}
names=( $( (ls -d seeded/C* | xargs -n1 basename; ls seeded/harmless/H*_patch.diff | xargs -n1 basename | sed 's/_patch.diff//') | grep -E "$pat") )
for ((i=0;i<n;i++)); do
  wt=/tmp/selftest_wt_$i
  git -C /repo worktree remove --force $wt 2>/dev/null
  git -C /repo worktree add -q --detach $wt HEAD || exit 2
  part=()
  for ((j=i;j<${#names[@]};j+=n)); do part+=("${names[$j]}"); done
  ( VERIF_REPO=$wt VERIF_BUILD=/tmp/selftest_build_$i python3 tools/selftest.py --out /tmp/selftest_part_$i.json "${part[@]}" > /tmp/selftest_part_$i.log 2>&1 ) &
done
wait
if [ "$pat" != "." ]; then out="--out /tmp/selftest_subset.json"; fi
python3 tools/selftest.py $out --merge $(for ((i=0;i<n;i++)); do echo /tmp/selftest_part_$i.json; done)
rc=$?
for ((i=0;i<n;i++)); do git -C /repo worktree remove --force /tmp/selftest_wt_$i; rm -rf /tmp/selftest_build_$i; done
exit $rc
