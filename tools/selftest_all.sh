#!/bin/bash
# partitioned selftest over scratch worktrees; merges into /verif/evidence/selftest.json
cd /verif
wts=(/tmp/mut_repo /tmp/seed_H2 /tmp/seed_R7_C01 /tmp/seed_R7_C03 /tmp/seed_R7_C06 /tmp/seed_R7_C09 /tmp/seed_R7_C13 /tmp/seed_R8_C12)
n=${#wts[@]}
for w in "${wts[@]}"; do git -C $w checkout -q -- . ; rm -f $w/scnr/tests/seed_demo.rs; done
names=( $(ls -d seeded/C* | xargs -n1 basename) H1 H2 H3 H4 H5 H6 H11 H12 H13 H14 H15 H16 H17 H18 H19 H20 )
for ((i=0;i<n;i++)); do
  part=()
  for ((j=i;j<${#names[@]};j+=n)); do part+=("${names[$j]}"); done
  ( VERIF_REPO=${wts[$i]} VERIF_BUILD=/tmp/st_build_$i python3 tools/selftest.py --out /tmp/selftest_part_$i.json "${part[@]}" > /tmp/selftest_part_$i.log 2>&1 ) &
done
wait
python3 tools/selftest.py --merge $(for ((i=0;i<n;i++)); do echo /tmp/selftest_part_$i.json; done)
