#!/usr/bin/env python3
"""bring evidence/selftest.json up to date without re-running everything:
  tools/selftest_merge_stored.py [partial result files of tools/selftest.py ...] [--harmless-log FILE] [--logs LOG ...]
(4) --logs: progress logs of tools/selftest.py runs that were not allowed to finish (`<seed>  DETECTED by C..` / `<seed>  MISSED ..` / `harmless Hn  no alarm (C.. rc=n)` /
    `harmless Hn  FALSE ALARM ..`): the stored entry is kept and marked with the outcome of the re-run (field `rerun`); a MISSED or FALSE ALARM line overrides it
(1) entries of the partial files (re-runs against the current machinery) replace / extend the stored ones (source = 're-run');
(2) every change under seeded/ that has no entry yet gets one from the verdicts recorded in its meta.json when it was stored by tools/store_seed.py (source = 'stored');
(3) lines `Hnn (name) Cxx: <verdict line>` of a harmless log become harmless entries."""
import os, sys, json, glob, re, time
V = os.path.dirname(os.path.dirname(os.path.abspath(__file__)))
path = os.path.join(V, 'evidence', 'selftest.json')
res = json.load(open(path))
args = sys.argv[1:]
hlog = None
logs = []
if '--logs' in args:
    k = args.index('--logs'); logs = args[k + 1:]; del args[k:]
if '--harmless-log' in args:
    k = args.index('--harmless-log'); hlog = args[k + 1]; del args[k:k + 2]
by_seed = {b['seed']: b for b in res['breaking']}
by_h = {h['change']: h for h in res['harmless']}
for f in args:
    part = json.load(open(f))
    for b in part['breaking']:
        b['source'] = 're-run %s' % part.get('at', '')
        by_seed[b['seed']] = b
    for h in part['harmless']:
        by_h[h['change']] = h
for d in sorted(glob.glob(os.path.join(V, 'seeded', 'C*'))):
    name = os.path.basename(d)
    if name in by_seed:
        continue
    m = json.load(open(os.path.join(d, 'meta.json')))
    results = {}
    for l in m.get('checks_with_change', []):
        mm = re.match(r'^(C\d\d):\s*(.*)$', l.strip())
        if not mm:
            continue
        line = mm.group(2).split('|')[0]
        results[mm.group(1)] = dict(rc=1 if line.startswith('VIOLATION') else 2 if line.startswith('UNDECIDED') else 0, line=mm.group(2)[:300].replace('|', ' '))
    caught = [p for p, o in results.items() if o['rc'] == 1]
    by_seed[name] = dict(seed=name, props=m['breaks'], caught_by=caught, results=results, detected=bool(caught), source='stored')
if hlog:
    for l in open(hlog):
        mm = re.match(r'^(H\d+) \((\S+)\) (C\d\d): (.*)$', l.strip())
        if mm:
            line = mm.group(4)
            rc = 1 if line.startswith('VIOLATION') else 2 if line.startswith('UNDECIDED') else 0
            by_h[mm.group(1)] = dict(change=mm.group(1), results={mm.group(3): dict(rc=rc, line=line[:300])}, false_alarm=rc == 1)
for lf in logs:
    for l in open(lf):
        l = l.rstrip()
        mm = re.match(r'^(C\d\d_\S+)\s+DETECTED by (\S+)$', l)
        if mm and mm.group(1) in by_seed:
            by_seed[mm.group(1)]['rerun'] = 'detected by %s (re-run %s)' % (mm.group(2), time.strftime('%Y-%m-%d'))
            by_seed[mm.group(1)]['detected'] = True
            continue
        mm = re.match(r'^(C\d\d_\S+)\s+MISSED', l)
        if mm and mm.group(1) in by_seed:
            by_seed[mm.group(1)]['rerun'] = 'MISSED (re-run %s)' % time.strftime('%Y-%m-%d'); by_seed[mm.group(1)]['detected'] = False
            continue
        mm = re.match(r'^harmless (H\d+)\s+no alarm \((C\d\d) rc=(\d)', l)
        if mm:
            h = by_h.setdefault(mm.group(1), dict(change=mm.group(1), results={}, false_alarm=False))
            h['rerun'] = 'no alarm (%s rc=%s, re-run %s)' % (mm.group(2), mm.group(3), time.strftime('%Y-%m-%d'))
            if not h['results']:
                h['results'] = {mm.group(2): dict(rc=int(mm.group(3)), line='(re-run log)')}
            continue
        mm = re.match(r'^harmless (H\d+)\s+FALSE ALARM', l)
        if mm:
            h = by_h.setdefault(mm.group(1), dict(change=mm.group(1), results={}, false_alarm=True))
            h['false_alarm'] = True; h['rerun'] = l[:300]
res['breaking'] = [by_seed[k] for k in sorted(by_seed)]
res['harmless'] = sorted(by_h.values(), key=lambda h: int(h['change'][1:]))
res['at'] = time.strftime('%Y-%m-%d %H:%M:%S')
json.dump(res, open(path, 'w'), indent=1)
bad = [b['seed'] for b in res['breaking'] if not b['detected']] + [h['change'] for h in res['harmless'] if h['false_alarm']]
print('%d breaking changes (%d detected), %d harmless changes (%d false alarms)' % (len(res['breaking']), sum(1 for b in res['breaking'] if b['detected']), len(res['harmless']), sum(1 for h in res['harmless'] if h['false_alarm'])))
print('NOT DETECTED / FALSE ALARM:', bad)
