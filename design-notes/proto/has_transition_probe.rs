use vstd::prelude::*;
use vstd::std_specs::iter::IteratorSpec;
verus! {
#[derive(Debug, Clone, Copy, PartialEq, Eq, PartialOrd, Ord, Hash, Default, Structural)]
pub struct TerminalID(pub u32);
#[derive(Debug, Clone, Copy, PartialEq, Eq, PartialOrd, Ord, Hash, Default, Structural)]
pub struct ScannerModeID(pub usize);
impl TerminalID { pub fn as_usize(&self) -> (r: usize) ensures r == self.0 as usize { self.0 as usize } }
impl ScannerModeID { pub fn as_usize(&self) -> (r: usize) ensures r == self.0 { self.0 as usize } }

pub struct CompiledScannerMode { pub transitions: Vec<(TerminalID, ScannerModeID)> }

pub open spec fn sorted_tr(ts: Seq<(TerminalID, ScannerModeID)>) -> bool {
    forall|i: int, j: int| 0 <= i < j < ts.len() ==> ts[i].0.0 < ts[j].0.0
}
/// the property's statement: the transition for token type tt, if any
pub open spec fn transition_of(ts: Seq<(TerminalID, ScannerModeID)>, tt: usize, r: Option<usize>) -> bool {
    match r {
        Some(m) => exists|i: int| 0 <= i < ts.len() && #[trigger] ts[i].0.0 as usize == tt && ts[i].1.0 == m,
        None => forall|i: int| 0 <= i < ts.len() ==> #[trigger] ts[i].0.0 as usize != tt,
    }
}

impl CompiledScannerMode {
    pub fn has_transition(&self, token_type: usize) -> (r: Option<usize>)
        requires sorted_tr(self.transitions@)
        ensures transition_of(self.transitions@, token_type, r)
    {
        let ghost ts = self.transitions@;
        let mut __it0 = core::iter::IntoIterator::into_iter(&self.transitions);
        loop
            invariant
                __it0.obeys_prophetic_iter_laws(), __it0.decrease() is Some,
                ts == self.transitions@, sorted_tr(ts),
                0 <= ts.len() - __it0.remaining().len() <= ts.len(),
                forall|q: int| 0 <= q < __it0.remaining().len() ==> *#[trigger] __it0.remaining()[q] == ts[ts.len() - __it0.remaining().len() + q],
                forall|i: int| 0 <= i < ts.len() - __it0.remaining().len() ==> #[trigger] ts[i].0.0 as usize != token_type,
            ensures
                __it0.remaining().len() == 0,
            decreases __it0.decrease()->0
        {
            let ghost n = ts.len() - __it0.remaining().len();
            let Some((tok_type, scanner)) = __it0.next() else { break };
            proof { assert((*tok_type, *scanner) == ts[n]); }
            match token_type.cmp(&tok_type.as_usize()) {
                std::cmp::Ordering::Less => {
                    proof {
                        assert forall|i: int| 0 <= i < ts.len() implies #[trigger] ts[i].0.0 as usize != token_type by {
                            if i > n { assert(ts[n].0.0 < ts[i].0.0); }
                        }
                    }
                    return None
                },
                std::cmp::Ordering::Equal => return Some(scanner.as_usize()),
                std::cmp::Ordering::Greater => continue,
            }
        }
        None
    }
}
}
fn main(){}
