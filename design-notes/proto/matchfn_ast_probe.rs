#![feature(allocator_api)]
#![feature(sized_hierarchy)]
use vstd::prelude::*;
use regex_syntax::ast::{
    ClassBracketed, ClassSet, ClassSetBinaryOp, ClassSetBinaryOpKind, ClassSetItem, ClassSetRange,
    ClassSetUnion, Literal, LiteralKind, Span, Position, ClassAscii, ClassUnicode, ClassPerl, HexLiteralKind, SpecialLiteralKind,
};
verus! {

#[verifier::external_type_specification]
pub struct ExPosition(Position);
#[verifier::external_type_specification]
pub struct ExSpan(Span);
#[verifier::external_type_specification]
pub struct ExHexLiteralKind(HexLiteralKind);
#[verifier::external_type_specification]
pub struct ExSpecialLiteralKind(SpecialLiteralKind);
#[verifier::external_type_specification]
pub struct ExLiteralKind(LiteralKind);
#[verifier::external_type_specification]
pub struct ExLiteral(Literal);
#[verifier::external_type_specification]
pub struct ExClassSetRange(ClassSetRange);
#[verifier::external_type_specification]
#[verifier::external_body]
pub struct ExClassAscii(ClassAscii);
#[verifier::external_type_specification]
#[verifier::external_body]
pub struct ExClassUnicode(ClassUnicode);
#[verifier::external_type_specification]
#[verifier::external_body]
pub struct ExClassPerl(ClassPerl);
#[verifier::external_type_specification]
pub struct ExClassSetUnion(ClassSetUnion);
#[verifier::external_type_specification]
pub struct ExClassBracketed(ClassBracketed);
#[verifier::external_type_specification]
pub struct ExClassSet(ClassSet);
#[verifier::external_type_specification]
pub struct ExClassSetBinaryOp(ClassSetBinaryOp);
#[verifier::external_type_specification]
pub struct ExClassSetBinaryOpKind(ClassSetBinaryOpKind);
#[verifier::external_type_specification]
pub struct ExClassSetItem(ClassSetItem);

pub open spec fn item_depth(i: ClassSetItem) -> nat
    decreases i
{
    match i {
        ClassSetItem::Bracketed(b) => 1 + set_depth(b.kind),
        _ => 0,
    }
}
pub open spec fn set_depth(s: ClassSet) -> nat
    decreases s
{
    match s {
        ClassSet::Item(i) => item_depth(i),
        ClassSet::BinaryOp(op) => 1 + set_depth(*op.lhs) + set_depth(*op.rhs),
    }
}


pub assume_specification<T: ?Sized + core::marker::MetaSized, A: std::alloc::Allocator>[ <std::boxed::Box<T, A> as std::convert::AsRef<T>>::as_ref ](b: &std::boxed::Box<T, A>) -> (r: &T)
    ensures r == &**b;

pub struct ScnrError { pub x: u8 }
pub type Result<T> = std::result::Result<T, ScnrError>;

#[verifier::external_body]
pub struct MatchFn(Box<u8>);

impl MatchFn {
    pub uninterp spec fn sem(&self) -> spec_fn(char) -> bool;

    #[verifier::external_body]
    pub fn new<F>(f: F) -> (r: Self)
    where
        F: Fn(char) -> bool + 'static + Send + Sync,
        requires forall|c: char| call_requires(f, (c,)),
        ensures forall|c: char, b: bool| call_ensures(f, (c,), b) ==> r.sem()(c) == b,
    {
        unimplemented!()
    }

    /// stands for `self.inner()(ch)`
    #[verifier::external_body]
    pub fn __call(&self, ch: char) -> (b: bool)
        ensures b == self.sem()(ch)
    {
        unimplemented!()
    }
}

pub open spec fn set_sem(s: ClassSet) -> spec_fn(char) -> bool
    decreases s
{
    match s {
        ClassSet::Item(i) => item_sem(i),
        ClassSet::BinaryOp(op) => |ch: char| match op.kind {
            ClassSetBinaryOpKind::Intersection => set_sem(*op.lhs)(ch) && set_sem(*op.rhs)(ch),
            ClassSetBinaryOpKind::Difference => set_sem(*op.lhs)(ch) && !set_sem(*op.rhs)(ch),
            ClassSetBinaryOpKind::SymmetricDifference => set_sem(*op.lhs)(ch) != set_sem(*op.rhs)(ch),
        },
    }
}
pub open spec fn item_sem(i: ClassSetItem) -> spec_fn(char) -> bool
    decreases i
{
    match i {
        ClassSetItem::Range(r) => |ch: char| r.start.c <= ch && ch <= r.end.c,
        ClassSetItem::Bracketed(b) => |ch: char| set_sem(b.kind)(ch) != b.negated,
        _ => |ch: char| false,
    }
}

impl MatchFn {
    fn try_from__class_set(set: &ClassSet) -> (r: Result<Self>)
        ensures r matches Ok(f) ==> forall|ch: char| #[trigger] f.sem()(ch) == set_sem(*set)(ch)
        decreases *set, 1int
    {
        let negated = false;
        match set {
            ClassSet::Item(item) => MatchFn::try_from__item((item, negated)),
            ClassSet::BinaryOp(bin_op) => MatchFn::try_from__binop((bin_op, negated)),
        }
    }
}

impl MatchFn {
    fn try_from__binop(arg: (&ClassSetBinaryOp, bool)) -> (r: Result<Self>)
        ensures r matches Ok(f) ==> forall|ch: char| #[trigger] f.sem()(ch) == (set_sem(ClassSet::BinaryOp(*arg.0))(ch) != arg.1)
        decreases *arg.0, 0int
    {
        let (bin_op, negated) = arg;
        let ClassSetBinaryOp { kind, lhs, rhs, .. } = bin_op;
        let lhs: MatchFn = MatchFn::try_from__class_set(lhs.as_ref())?;
        let rhs: MatchFn = MatchFn::try_from__class_set(rhs.as_ref())?;
        let match_function = match kind {
            ClassSetBinaryOpKind::Intersection => {
                MatchFn::new(move |ch: char| -> (b: bool) ensures b == (lhs.sem()(ch) && rhs.sem()(ch)) { lhs.__call(ch) && rhs.__call(ch) })
            }
            ClassSetBinaryOpKind::Difference => {
                MatchFn::new(move |ch: char| -> (b: bool) ensures b == (lhs.sem()(ch) && !rhs.sem()(ch)) { lhs.__call(ch) && !rhs.__call(ch) })
            }
            ClassSetBinaryOpKind::SymmetricDifference => {
                MatchFn::new(move |ch: char| -> (b: bool) ensures b == (lhs.sem()(ch) != rhs.sem()(ch)) { lhs.__call(ch) != rhs.__call(ch) })
            }
        };
        Ok(if negated {
            MatchFn::new(move |ch: char| -> (b: bool) ensures b == !match_function.sem()(ch) { !match_function.__call(ch) })
        } else {
            match_function
        })
    }
}

impl MatchFn {
    fn try_from__item(arg: (&ClassSetItem, bool)) -> (r: Result<Self>)
        ensures r matches Ok(f) ==> forall|ch: char| #[trigger] f.sem()(ch) == (item_sem(*arg.0)(ch) != arg.1)
        decreases *arg.0, 0int
    {
        let (item, negated) = arg;
        let match_function = match item {
            ClassSetItem::Range(ref r) => {
                let ClassSetRange { ref start, ref end, .. } = *r;
                let start = start.c;
                let end = end.c;
                MatchFn::new(move |ch: char| -> (b: bool) ensures b == (start <= ch && ch <= end) { start <= ch && ch <= end })
            }
            ClassSetItem::Bracketed(ref c) => {
                let negated = c.negated;
                let inner: MatchFn = match &c.kind {
                    ClassSet::Item(item) => MatchFn::try_from__item((item, negated))?,
                    ClassSet::BinaryOp(bin_op) => MatchFn::try_from__binop((bin_op, negated))?,
                };
                inner
            }
            _ => MatchFn::new(|ch: char| -> (b: bool) ensures b == false { false }),
        };
        Ok(if negated {
            MatchFn::new(move |ch: char| -> (b: bool) ensures b == !match_function.sem()(ch) { !match_function.__call(ch) })
        } else {
            match_function
        })
    }
}

fn range_matches(r: &ClassSetRange, ch: char) -> (b: bool)
    ensures b == (r.start.c <= ch && ch <= r.end.c)
{
    let ClassSetRange { ref start, ref end, .. } = *r;
    let start = start.c;
    let end = end.c;
    start <= ch && ch <= end
}

}
fn main(){}
