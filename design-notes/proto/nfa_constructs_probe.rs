use vstd::prelude::*;
use vstd::std_specs::iter::IteratorSpec;
verus! {
#[derive(Debug, Clone, Copy, PartialEq, Eq, PartialOrd, Ord, Hash, Default, Structural)]
pub struct StateID(pub u32);
#[derive(Debug, Clone, Copy, PartialEq, Eq, PartialOrd, Ord, Hash, Default, Structural)]
pub struct CharClassID(pub u32);
pub type StateIDBase = u32;
impl StateID {
    pub const fn new(index: u32) -> (r: Self) ensures r.0 == index { StateID(index) }
    pub fn id(&self) -> (r: u32) ensures r == self.0 { self.0 }
}
impl<T> std::ops::Index<StateID> for Vec<T> {
    type Output = T;
    fn index(&self, index: StateID) -> (r: &Self::Output) ensures *r == self@[index.0 as int] { &self[index.0 as usize] }
}
impl<T> vstd::std_specs::core::IndexSpecImpl<StateID> for Vec<T> {
    open spec fn index_req(&self, index: &StateID) -> bool { index.0 < self@.len() }
}
impl<T> std::ops::IndexMut<StateID> for Vec<T> {
    fn index_mut(&mut self, index: StateID) -> &mut T { &mut self[index.0 as usize] }
}

pub struct EpsilonTransition { pub target_state: StateID }
pub struct NfaTransition { pub target_state: StateID, pub char_class: CharClassID }
pub struct NfaState {
    pub state: StateID,
    pub epsilon_transitions: Vec<EpsilonTransition>,
    pub transitions: Vec<NfaTransition>,
}
impl NfaState {
    pub fn new(state: StateID) -> Self {
        Self { state, epsilon_transitions: Vec::new(), transitions: Vec::new() }
    }
    pub fn offset(&mut self, offset: usize)
        requires old(self).state.0 + offset <= u32::MAX,
    {
        self.state = StateID::new(self.state.id() + offset as StateIDBase);
        for transition in self.transitions.iter_mut() {
            transition.target_state =
                StateID::new(transition.target_state.id() + offset as StateIDBase);
        }
    }
}
pub struct Nfa {
    pub states: Vec<NfaState>,
    pub start_state: StateID,
    pub end_state: StateID,
}
impl Nfa {
    pub fn add_state(&mut self, state: NfaState) { self.states.push(state); }
    pub fn add_epsilon_transition(&mut self, from: StateID, target_state: StateID)
        requires from.0 < old(self).states@.len()
    {
        self.states[from]
            .epsilon_transitions
            .push(EpsilonTransition { target_state });
    }
    pub fn new_state(&mut self) -> StateID
        requires old(self).states@.len() < u32::MAX
    {
        let state = StateID::new(self.states.len() as StateIDBase);
        self.add_state(NfaState::new(state));
        state
    }
    pub fn set_start_state(&mut self, state: StateID) { self.start_state = state; }
    pub fn zero_or_one(&mut self)
        requires old(self).states@.len() < u32::MAX
    {
        let start_state = self.new_state();
        self.add_epsilon_transition(start_state, self.start_state);
        self.add_epsilon_transition(start_state, self.end_state);
        self.set_start_state(start_state);
    }
}
}
fn main(){}
