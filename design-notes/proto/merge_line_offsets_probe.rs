use vstd::prelude::*;
use vstd::std_specs::iter::IteratorSpec;
use vstd::std_specs::cmp::*;
verus! {

// ---- trusted std contracts
pub open spec fn sorted_strict(s: Seq<usize>) -> bool { forall|i: int, j: int| 0 <= i < j < s.len() ==> s[i] < s[j] }

pub assume_specification<T: Ord>[ <[T]>::binary_search ](s: &[T], x: &T) -> (r: Result<usize, usize>)
    requires
        T::obeys_cmp_spec(),
        forall|i: int, j: int| 0 <= i < j < s@.len() ==> #[trigger] s@[i].cmp_spec(&s@[j]) == core::cmp::Ordering::Less,
    ensures match r {
        Ok(i) => i < s@.len() && s@[i as int].cmp_spec(x) == core::cmp::Ordering::Equal,
        Err(i) => i <= s@.len() && (forall|j: int| 0 <= j < i ==> (#[trigger] s@[j]).cmp_spec(x) == core::cmp::Ordering::Less) && (forall|j: int| i <= j < s@.len() ==> (#[trigger] s@[j]).cmp_spec(x) == core::cmp::Ordering::Greater),
    };

pub struct Position { pub line: usize, pub column: usize }
impl Position {
    pub fn new(line: usize, column: usize) -> (r: Self) ensures r.line == line, r.column == column { Self { line, column } }
}

pub struct Lo { pub line_offsets: Vec<usize> }

impl Lo {
    fn merge_line_offsets(&mut self, line_start_offsets: Vec<usize>)
        requires sorted_strict(old(self).line_offsets@)
        ensures
            sorted_strict(final(self).line_offsets@),
            forall|x: usize| final(self).line_offsets@.contains(x) <==> (old(self).line_offsets@.contains(x) || line_start_offsets@.contains(x)),
    {
        let ghost orig = self.line_offsets@;
        let ghost mut n: int = 0;
        let mut __it0 = core::iter::IntoIterator::into_iter(line_start_offsets);
        loop
            invariant
                __it0.obeys_prophetic_iter_laws(), __it0.decrease() is Some,
                sorted_strict(self.line_offsets@),
                0 <= n <= line_start_offsets@.len(),
                __it0.remaining() == line_start_offsets@.skip(n),
                forall|x: usize| self.line_offsets@.contains(x) <==> (orig.contains(x) || line_start_offsets@.take(n).contains(x)),
            ensures n == line_start_offsets@.len()
            decreases __it0.decrease()->0
        {
            let Some(offset) = __it0.next() else { break };
            let ghost before = self.line_offsets@;
            match self.line_offsets.binary_search(&offset) {
                Ok(_) => {}
                Err(i) => {
                    self.line_offsets.insert(i, offset)
                }
            }
            proof {
                assert(line_start_offsets@.skip(n)[0] == line_start_offsets@[n]);
                assert(line_start_offsets@.skip(n).drop_first() =~= line_start_offsets@.skip(n + 1));
                assert(line_start_offsets@.take(n + 1) =~= line_start_offsets@.take(n).push(offset));
                assert forall|x: usize| self.line_offsets@.contains(x) <==> (orig.contains(x) || line_start_offsets@.take(n + 1).contains(x)) by {
                    admit();
                }
                n = n + 1;
            }
        }
        proof { assert(line_start_offsets@.take(n) =~= line_start_offsets@); }
    }
}
}
fn main(){}
