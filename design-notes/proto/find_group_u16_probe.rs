use vstd::prelude::*;
use vstd::std_specs::iter::IteratorSpec;
use std::collections::BTreeSet;
verus! {

#[derive(Debug, Clone, Copy, PartialEq, Eq, PartialOrd, Ord, Hash, Default, Structural)]
pub struct StateID(pub u32);
#[derive(Debug, Clone, Copy, PartialEq, Eq, PartialOrd, Ord, Hash, Default, Structural)]
pub struct StateGroupID(pub u16);
pub type StateGroupIDBase = u16;
impl From<u16> for StateGroupID { fn from(index: u16) -> (r: Self) ensures r.0 == index { StateGroupID(index) } }

type StateGroup = BTreeSet<StateID>;

pub assume_specification<'a, T, P: FnMut(&'a T) -> bool>[ <std::slice::Iter<'a, T> as Iterator>::position ](it: &mut std::slice::Iter<'a, T>, p: P) -> (r: Option<usize>)
    where std::slice::Iter<'a, T>: Sized
    requires
        old(it).obeys_prophetic_iter_laws(),
        forall|i: int| 0 <= i < old(it).remaining().len() ==> call_requires(p, (#[trigger] old(it).remaining()[i],)),
    ensures
        match r {
            Some(k) => k < old(it).remaining().len() && call_ensures(p, (old(it).remaining()[k as int],), true)
                && forall|i: int| 0 <= i < k ==> call_ensures(p, (#[trigger] old(it).remaining()[i],), false),
            None => forall|i: int| 0 <= i < old(it).remaining().len() ==> call_ensures(p, (#[trigger] old(it).remaining()[i],), false),
        };

pub broadcast axiom fn axiom_stateid_cmp()
    ensures #[trigger] vstd::std_specs::btree::key_obeys_cmp_spec::<StateID>();

fn find_group(state_id: StateID, partition: &[StateGroup]) -> (r: Option<StateGroupID>)
    ensures
        match r {
            Some(g) => g.0 < partition@.len() && partition@[g.0 as int]@.contains(state_id)
                && forall|i: int| 0 <= i < g.0 ==> !partition@[i]@.contains(state_id),
            None => forall|i: int| 0 <= i < partition@.len() ==> !partition@[i]@.contains(state_id),
        }
{
    broadcast use axiom_stateid_cmp;
    partition
        .iter()
        .position(|group: &StateGroup| -> (b: bool) ensures b == group@.contains(state_id) { group.contains(&state_id) })
        .map(|id: usize| -> (g: StateGroupID) ensures g.0 == id as u16 { (id as StateGroupIDBase).into() })
}
}
fn main(){}
