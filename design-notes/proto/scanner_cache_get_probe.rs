use vstd::prelude::*;
use rustc_hash::FxHashMap;
use std::sync::Arc;
verus! {
#[verifier::external_type_specification]
#[verifier::external_body]
pub struct ExFxBuildHasher(rustc_hash::FxBuildHasher);

#[derive(Debug, Clone, PartialEq, Eq, Hash, Structural)]
pub struct ScannerMode { pub name: u32, pub tt: usize }

#[derive(Debug)]
pub struct ScnrError { pub x: u8 }
pub type Result<T> = std::result::Result<T, ScnrError>;

#[verifier::external_body]
pub struct ScannerImpl { x: u8 }

pub uninterp spec fn compile(modes: Seq<ScannerMode>) -> Option<ScannerImpl>;

#[verifier::external_body]
fn try_from_modes(modes: &[ScannerMode]) -> (r: Result<ScannerImpl>)
    ensures match r { Ok(s) => compile(modes@) == Some(s), Err(_) => compile(modes@) is None }
{ unimplemented!() }

#[verifier::external_body]
fn clone_arc_target(a: &Arc<ScannerImpl>) -> (r: ScannerImpl)
    ensures r == **a
{ unimplemented!() }

pub assume_specification<T: Clone>[ <[T]>::to_vec ](s: &[T]) -> (r: Vec<T>)
    ensures r@ == s@;   // assumes T::clone is the identity on views

pub broadcast axiom fn axiom_key_model()
    ensures #[trigger] vstd::std_specs::hash::obeys_key_model::<Vec<ScannerMode>>();
pub broadcast axiom fn axiom_fx_valid()
    ensures #[trigger] vstd::std_specs::hash::builds_valid_hashers::<rustc_hash::FxBuildHasher>();

pub struct ScannerCache {
    pub cache: FxHashMap<Vec<ScannerMode>, Arc<ScannerImpl>>,
}

impl ScannerCache {
    pub open spec fn inv(&self) -> bool {
        forall|k: Vec<ScannerMode>| #[trigger] self.cache@.contains_key(k) ==> compile(k@) == Some(*self.cache@[k])
    }

    pub fn get(&mut self, modes: &[ScannerMode]) -> (r: Result<ScannerImpl>)
        requires old(self).inv()
        ensures final(self).inv(),
            match r { Ok(s) => compile(modes@) == Some(s), Err(_) => compile(modes@) is None && final(self).cache@ == old(self).cache@ }
        decreases (if exists|k: Vec<ScannerMode>| old(self).cache@.contains_key(k) && k@ == modes@ { 0int } else { 1int })
    {
        broadcast use axiom_key_model, axiom_fx_valid;
        if let Some(scanner) = self.cache.get(modes) {
            let cloned_scanner = clone_arc_target(scanner);
            Ok(cloned_scanner)
        } else {
            self.cache
                .insert(modes.to_vec(), Arc::new(try_from_modes(modes)?));
            Ok(self.get(modes).unwrap())
        }
    }
}
}
fn main(){}
