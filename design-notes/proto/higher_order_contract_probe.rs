use vstd::prelude::*;
use vstd::std_specs::cmp::OrdSpec;
use core::cmp::Ordering;
verus! {
pub open spec fn sorted_strict(s: Seq<usize>) -> bool { forall|i: int, j: int| 0 <= i < j < s.len() ==> s[i] < s[j] }

/// g over-approximates the behaviour of f
pub open spec fn models<'a, T: 'a, F: FnMut(&'a T) -> Ordering>(f: F, g: spec_fn(T) -> Ordering) -> bool {
    forall|x: &'a T, o: Ordering| call_ensures(f, (x,), o) ==> o == g(*x)
}
pub open spec fn mono<T>(g: spec_fn(T) -> Ordering, s: Seq<T>) -> bool {
    forall|j: int, k: int| 0 <= j < k < s.len() ==>
        (g(#[trigger] s[k]) == Ordering::Less ==> g(#[trigger] s[j]) == Ordering::Less) && (g(s[j]) == Ordering::Greater ==> g(s[k]) == Ordering::Greater)
}

pub assume_specification<'a, T, F: FnMut(&'a T) -> Ordering>[ <[T]>::binary_search_by ](s: &'a [T], f: F) -> (r: Result<usize, usize>)
    requires
        forall|x: &'a T| call_requires(f, (x,)),
    ensures
        forall|g: spec_fn(T) -> Ordering| #[trigger] models(f, g) && mono(g, s@) ==> match r {
            Ok(i) => i < s@.len() && g(s@[i as int]) == Ordering::Equal,
            Err(i) => i <= s@.len()
                && (forall|j: int| 0 <= j < i ==> g(#[trigger] s@[j]) == Ordering::Less)
                && (forall|j: int| i <= j < s@.len() ==> g(#[trigger] s@[j]) == Ordering::Greater),
        };

fn t(v: &Vec<usize>, offset: usize) -> (r: usize)
    requires sorted_strict(v@), v@.len() >= 1, v@[0] == 0
    ensures r < v@.len(), v@[r as int] <= offset, r + 1 < v@.len() ==> offset < v@[r as int + 1]
{
    let __cl0 = |x: &usize| -> (o: Ordering) ensures o == (*x).cmp_spec(&offset) { (*x).cmp(&offset) };
    let ghost g = |x: usize| x.cmp_spec(&offset);
    proof {
        assert(models(__cl0, g));
        assert(mono(g, v@)) by {
            assert forall|j: int, k: int| 0 <= j < k < v@.len() implies
                (g(#[trigger] v@[k]) == Ordering::Less ==> g(#[trigger] v@[j]) == Ordering::Less) && (g(v@[j]) == Ordering::Greater ==> g(v@[k]) == Ordering::Greater) by {
                assert(v@[j] < v@[k]);
            }
        }
    }
    match v.binary_search_by(__cl0) {
        Ok(i) => i,
        Err(i) => {
            proof { if i == 0 { assert(g(v@[0]) == Ordering::Greater); } }
            i - 1
        }
    }
}
}
fn main(){}
