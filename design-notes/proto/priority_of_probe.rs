use vstd::prelude::*;
use vstd::std_specs::iter::IteratorSpec;
verus! {
#[derive(Debug, Clone, Copy, PartialEq, Eq, PartialOrd, Ord, Hash, Default, Structural)]
pub struct TerminalID(pub u32);

pub open spec fn models_pred<'a, T: 'a, P: FnMut(&'a T) -> bool>(p: P, g: spec_fn(T) -> bool) -> bool {
    forall|x: &'a T, b: bool| call_ensures(p, (x,), b) ==> b == g(*x)
}

pub assume_specification<'a, T, P: FnMut(&'a T) -> bool>[ <std::slice::Iter<'a, T> as Iterator>::position ](it: &mut std::slice::Iter<'a, T>, p: P) -> (r: Option<usize>)
    where std::slice::Iter<'a, T>: Sized
    requires
        (*old(it)).obeys_prophetic_iter_laws(),
        forall|x: &'a T| call_requires(p, (x,)),
    ensures
        r matches Some(k) ==> k < (*old(it)).remaining().len(),
        forall|g: spec_fn(T) -> bool, i: int| #![trigger models_pred(p, g), (*old(it)).remaining()[i]]
            models_pred(p, g) && 0 <= i < (*old(it)).remaining().len() && (r matches Some(k) ==> i <= k)
                ==> g(*(*old(it)).remaining()[i]) == (r matches Some(k) && i == k);

pub open spec fn is_prio(ids: Seq<TerminalID>, tid: TerminalID, r: int) -> bool {
    0 <= r < ids.len() && ids[r] == tid && forall|j: int| 0 <= j < r ==> ids[j] != tid
}

pub struct D { pub terminal_ids: Vec<TerminalID> }
impl D {
    fn priority_of(&self, terminal_id: TerminalID) -> (r: usize)
        requires self.terminal_ids@.contains(terminal_id)
        ensures is_prio(self.terminal_ids@, terminal_id, r as int)
    {
        let __cl0 = |id: &TerminalID| -> (b: bool) ensures b == (*id == terminal_id) { *id == terminal_id };
        let ghost g = |id: TerminalID| id == terminal_id;
        let mut __it = self.terminal_ids.iter();
        let ghost rem = __it.remaining();
        proof {
            assert(models_pred(__cl0, g));
            assert(rem.len() == self.terminal_ids@.len());
            assert(forall|i: int| 0 <= i < rem.len() ==> *#[trigger] rem[i] == self.terminal_ids@[i]);
        }
        let __res = __it
            .position(__cl0);
        proof {
            assert(models_pred(__cl0, g));
            if __res is None {
                assert(forall|i: int| 0 <= i < rem.len() ==> !g(*#[trigger] rem[i]));
                let p = choose|p: int| 0 <= p < self.terminal_ids@.len() && self.terminal_ids@[p] == terminal_id;
                assert(!g(*rem[p]));
            }
        }
        proof {
            let k = __res->0 as int;
            assert(g(*rem[k]));
            assert forall|j: int| 0 <= j < k implies self.terminal_ids@[j] != terminal_id by {
                assert(!g(*rem[j]));
            }
        }
        __res.unwrap()
    }
}
}
fn main(){}
