use vstd::prelude::*;
use vstd::std_specs::iter::IteratorSpec;
use vstd::std_specs::cmp::OrdSpec;
verus! {

// ---------------------------------------------------------------- trusted prelude (excerpt)
#[verifier::external_type_specification]
#[verifier::external_body]
pub struct ExCharIndices<'a>(std::str::CharIndices<'a>);

pub open spec fn clen(c: char) -> nat { vstd::utf8::encode_scalar(c as u32).len() }
pub open spec fn blen(s: Seq<char>) -> nat
    decreases s.len()
{ if s.len() == 0 { 0 } else { blen(s.drop_last()) + clen(s.last()) } }
pub open spec fn ci_seq(s: Seq<char>, base: nat) -> Seq<(usize, char)> {
    Seq::new(s.len(), |i: int| ((base + blen(s.take(i))) as usize, s[i]))
}
pub open spec fn ci_at(rem: Seq<(usize, char)>, input: Seq<char>, n: int) -> bool {
    0 <= n <= input.len() && rem == ci_seq(input.skip(n), blen(input.take(n)))
}
pub broadcast axiom fn axiom_clen_bounds(c: char)
    ensures 1 <= #[trigger] clen(c) <= 4;
pub axiom fn axiom_str_blen(s: &str)
    ensures blen(s@) <= isize::MAX;

pub assume_specification<T: Ord>[ <[T]>::binary_search ](s: &[T], x: &T) -> (r: Result<usize, usize>)
    requires
        T::obeys_cmp_spec(),
        forall|i: int, j: int| 0 <= i < j < s@.len() ==> #[trigger] s@[i].cmp_spec(&s@[j]) == core::cmp::Ordering::Less,
    ensures match r {
        Ok(i) => i < s@.len() && s@[i as int].cmp_spec(x) == core::cmp::Ordering::Equal,
        Err(i) => i <= s@.len() && (forall|j: int| 0 <= j < i ==> (#[trigger] s@[j]).cmp_spec(x) == core::cmp::Ordering::Less) && (forall|j: int| i <= j < s@.len() ==> (#[trigger] s@[j]).cmp_spec(x) == core::cmp::Ordering::Greater),
    };

pub open spec fn ord_of<'a, T, F: FnMut(&'a T) -> core::cmp::Ordering>(f: F, x: &'a T, o: core::cmp::Ordering) -> bool {
    call_ensures(f, (x,), o)
}

pub assume_specification<'a, T, F: FnMut(&'a T) -> core::cmp::Ordering>[ <[T]>::binary_search_by ](s: &'a [T], f: F) -> (r: Result<usize, usize>)
    requires
        forall|j: int| 0 <= j < s@.len() ==> call_requires(f, (#[trigger] &s@[j],)),
        // f is a total function on the elements ...
        forall|j: int, o1: core::cmp::Ordering, o2: core::cmp::Ordering| 0 <= j < s@.len() && #[trigger] call_ensures(f, (&s@[j],), o1) && #[trigger] call_ensures(f, (&s@[j],), o2) ==> o1 == o2,
        forall|j: int| 0 <= j < s@.len() ==> (call_ensures(f, (#[trigger] &s@[j],), core::cmp::Ordering::Less) || call_ensures(f, (&s@[j],), core::cmp::Ordering::Equal) || call_ensures(f, (&s@[j],), core::cmp::Ordering::Greater)),
        // ... and monotone along the slice: Less* Equal* Greater*
        forall|j: int, k: int| 0 <= j < k < s@.len() && #[trigger] call_ensures(f, (&s@[k],), core::cmp::Ordering::Less) ==> #[trigger] call_ensures(f, (&s@[j],), core::cmp::Ordering::Less),
        forall|j: int, k: int| 0 <= j < k < s@.len() && #[trigger] call_ensures(f, (&s@[j],), core::cmp::Ordering::Greater) ==> #[trigger] call_ensures(f, (&s@[k],), core::cmp::Ordering::Greater),
    ensures match r {
        Ok(i) => i < s@.len() && call_ensures(f, (&s@[i as int],), core::cmp::Ordering::Equal),
        Err(i) => i <= s@.len()
            && (forall|j: int| 0 <= j < i ==> call_ensures(f, (#[trigger] &s@[j],), core::cmp::Ordering::Less))
            && (forall|j: int| i <= j < s@.len() ==> call_ensures(f, (#[trigger] &s@[j],), core::cmp::Ordering::Greater)),
    };

// ---------------------------------------------------------------- specification
/// byte offset of char index k
pub open spec fn boff(input: Seq<char>, k: int) -> nat { blen(input.take(k)) }

/// char index k starts a line
pub open spec fn starts_line(input: Seq<char>, k: int) -> bool {
    0 <= k <= input.len() && (k == 0 || input[k - 1] == '\n')
}
/// byte offset b is a line start
pub open spec fn is_line_start(input: Seq<char>, b: nat) -> bool {
    exists|k: int| #[trigger] starts_line(input, k) && boff(input, k) == b
}
pub open spec fn sorted_strict(s: Seq<usize>) -> bool { forall|i: int, j: int| 0 <= i < j < s.len() ==> s[i] < s[j] }

/// all line starts strictly before char index k are recorded
pub open spec fn complete_upto(input: Seq<char>, lo: Seq<usize>, k: int) -> bool {
    forall|j: int| 0 <= j < k && #[trigger] starts_line(input, j) ==> lo.contains(boff(input, j) as usize)
}
pub open spec fn lo_wf(input: Seq<char>, lo: Seq<usize>) -> bool {
    &&& sorted_strict(lo)
    &&& lo.len() >= 1 && lo[0] == 0
    &&& forall|i: int| 0 <= i < lo.len() ==> is_line_start(input, #[trigger] lo[i] as nat)
}

pub struct Position { pub line: usize, pub column: usize }
impl Position {
    pub fn new(line: usize, column: usize) -> (r: Self) ensures r.line == line, r.column == column { Self { line, column } }
}

/// number of line starts at char indices 1..=k (i.e. newlines among the first k chars)
pub open spec fn nl_count(input: Seq<char>, k: int) -> nat
    decreases k
{
    if k <= 0 { 0 } else { nl_count(input, k - 1) + if input[k - 1] == '\n' { 1nat } else { 0nat } }
}
/// char index of the start of the line containing char index k
pub open spec fn line_start_of(input: Seq<char>, k: int) -> int
    decreases k
{
    if k <= 0 { 0 } else if input[k - 1] == '\n' { k } else { line_start_of(input, k - 1) }
}

pub struct Lo<'h> {
    pub input: &'h str,
    pub line_offsets: Vec<usize>,
    pub last_char: char,
}

impl<'h> Lo<'h> {
    /// Merges the given line start offsets with the current line start offsets.
    fn merge_line_offsets(&mut self, line_start_offsets: Vec<usize>)
        requires
            lo_wf(old(self).input@, old(self).line_offsets@),
            forall|i: int| 0 <= i < line_start_offsets@.len() ==> is_line_start(old(self).input@, #[trigger] line_start_offsets@[i] as nat),
        ensures
            final(self).input == old(self).input, final(self).last_char == old(self).last_char,
            lo_wf(final(self).input@, final(self).line_offsets@),
            forall|x: usize| final(self).line_offsets@.contains(x) <==> (old(self).line_offsets@.contains(x) || line_start_offsets@.contains(x)),
    {
        let ghost orig = self.line_offsets@;
        let ghost input = self.input@;
        let ghost mut n: int = 0;
        let mut __it0 = core::iter::IntoIterator::into_iter(line_start_offsets);
        loop
            invariant
                __it0.obeys_prophetic_iter_laws(), __it0.decrease() is Some,
                self.input@ == input, self.input == old(self).input, self.last_char == old(self).last_char,
                lo_wf(input, self.line_offsets@),
                0 <= n <= line_start_offsets@.len(),
                __it0.remaining() == line_start_offsets@.skip(n),
                forall|i: int| 0 <= i < line_start_offsets@.len() ==> is_line_start(input, #[trigger] line_start_offsets@[i] as nat),
                forall|x: usize| self.line_offsets@.contains(x) <==> (orig.contains(x) || line_start_offsets@.take(n).contains(x)),
            ensures n == line_start_offsets@.len()
            decreases __it0.decrease()->0
        {
            let Some(offset) = __it0.next() else { break };
            let ghost before = self.line_offsets@;
            proof {
                assert(line_start_offsets@.skip(n)[0] == line_start_offsets@[n]);
                assert(offset == line_start_offsets@[n]);
            }
            match self.line_offsets.binary_search(&offset) {
                Ok(_) => {}
                Err(i) => {
                    self.line_offsets.insert(i, offset)
                }
            }
            proof {
                lemma_insert_sorted(before, self.line_offsets@, offset);
                assert(line_start_offsets@.skip(n).drop_first() =~= line_start_offsets@.skip(n + 1));
                assert(line_start_offsets@.take(n + 1) =~= line_start_offsets@.take(n).push(offset));
                assert forall|x: usize| self.line_offsets@.contains(x) <==> (orig.contains(x) || line_start_offsets@.take(n + 1).contains(x)) by {
                    lemma_push_contains(line_start_offsets@.take(n), offset, x);
                }
                assert forall|i: int| 0 <= i < self.line_offsets@.len() implies is_line_start(input, #[trigger] self.line_offsets@[i] as nat) by {
                    let x = self.line_offsets@[i];
                    assert(self.line_offsets@.contains(x));
                    if before.contains(x) {
                        let p = choose|p: int| 0 <= p < before.len() && before[p] == x;
                    }
                }
                n = n + 1;
            }
        }
        proof { assert(line_start_offsets@.take(n) =~= line_start_offsets@); }
    }

    /// Records the offset of a line in the haystack.
    fn record_line_offset(&mut self, i: usize, c: char)
        requires
            lo_wf(old(self).input@, old(self).line_offsets@),
            old(self).last_char == '\n' ==> is_line_start(old(self).input@, i as nat),
        ensures
            final(self).input == old(self).input, final(self).last_char == c,
            lo_wf(final(self).input@, final(self).line_offsets@),
            forall|x: usize| final(self).line_offsets@.contains(x) <==> (old(self).line_offsets@.contains(x) || (old(self).last_char == '\n' && x == i)),
    {
        if self.last_char == '\n' {
            let v = vec![i];
            let ghost vv = v@;
            proof {
                assert(vv[0] == i);
                assert forall|x: usize| vv.contains(x) <==> x == i by {
                    if x == i { assert(vv[0] == x); }
                }
            }
            self.merge_line_offsets(v);
        }
        self.last_char = c;
    }

    /// Returns the line and column numbers of the given offset.
    fn position(&self, offset: usize) -> (p: Position)
        requires
            lo_wf(self.input@, self.line_offsets@),
            offset <= blen(self.input@),
        ensures
            // the line start used is the greatest recorded one <= offset
            exists|i: int| 0 <= i < self.line_offsets@.len() && #[trigger] self.line_offsets@[i] <= offset
                && (i + 1 < self.line_offsets@.len() ==> offset < self.line_offsets@[i + 1])
                && p.line == i + 1 && p.column == offset - self.line_offsets@[i] + 1,
    {
        proof {
            axiom_str_blen(self.input);
            lemma_lo_bounded(self.input@, self.line_offsets@);
            let lo = self.line_offsets@;
            assert(sorted_strict(lo));
            assert forall|j: int, k: int| 0 <= j < k < lo.len() implies lo[j] < lo[k] by { }
            assert forall|j: int, k: int| 0 <= j < k < lo.len() && #[trigger] lo[j].cmp_spec(&offset) == core::cmp::Ordering::Greater implies #[trigger] lo[k].cmp_spec(&offset) == core::cmp::Ordering::Greater by { assert(lo[j] < lo[k]); }
        }
        match self.line_offsets.binary_search_by(|x: &usize| -> (o: core::cmp::Ordering) ensures o == (*x).cmp_spec(&offset) { (*x).cmp(&offset) }) {
            Ok(i) => Position::new(i + 1, offset.saturating_sub(self.line_offsets[i]) + 1),
            Err(i) => Position::new(i, offset.saturating_sub(self.line_offsets[i - 1]) + 1),
        }
    }
}

pub proof fn lemma_push_contains(s: Seq<usize>, a: usize, x: usize)
    ensures s.push(a).contains(x) <==> (s.contains(x) || x == a)
{
    if s.push(a).contains(x) {
        let p = choose|p: int| 0 <= p < s.push(a).len() && s.push(a)[p] == x;
        if p < s.len() { assert(s[p] == x); }
    }
    if s.contains(x) {
        let p = choose|p: int| 0 <= p < s.len() && s[p] == x;
        assert(s.push(a)[p] == x);
    }
    if x == a { assert(s.push(a)[s.len() as int] == x); }
}

pub proof fn lemma_insert_sorted(before: Seq<usize>, after: Seq<usize>, x: usize)
    requires
        sorted_strict(before), before.len() >= 1, before[0] == 0,
        after == before || (exists|i: int| 0 <= i <= before.len() && after == before.insert(i, x)
            && (forall|j: int| 0 <= j < i ==> before[j] < x) && (forall|j: int| i <= j < before.len() ==> before[j] > x)),
        before.contains(x) ==> after == before,
        !before.contains(x) ==> after != before,
    ensures
        sorted_strict(after), after.len() >= 1, after[0] == 0,
        forall|y: usize| after.contains(y) <==> (before.contains(y) || y == x),
{
    if after == before {
    } else {
        let i = choose|i: int| 0 <= i <= before.len() && after == before.insert(i, x)
            && (forall|j: int| 0 <= j < i ==> before[j] < x) && (forall|j: int| i <= j < before.len() ==> before[j] > x);
        assert(i > 0) by { if i == 0 { assert(before[0] > x); } }
        assert forall|y: usize| after.contains(y) <==> (before.contains(y) || y == x) by {
            if after.contains(y) {
                let p = choose|p: int| 0 <= p < after.len() && after[p] == y;
                if p < i { assert(before[p] == y); } else if p > i { assert(before[p - 1] == y); }
            }
            if before.contains(y) {
                let p = choose|p: int| 0 <= p < before.len() && before[p] == y;
                if p < i { assert(after[p] == y); } else { assert(after[p + 1] == y); }
            }
            if y == x { assert(after[i] == x); }
        }
    }
}

pub proof fn lemma_lo_bounded(input: Seq<char>, lo: Seq<usize>)
    requires lo_wf(input, lo)
    ensures forall|i: int| 0 <= i < lo.len() ==> #[trigger] lo[i] <= blen(input)
{
    assert forall|i: int| 0 <= i < lo.len() implies #[trigger] lo[i] <= blen(input) by {
        let k = choose|k: int| #[trigger] starts_line(input, k) && boff(input, k) == lo[i] as nat;
        lemma_blen_take_le(input, k);
    }
}
pub proof fn lemma_blen_take_le(s: Seq<char>, k: int)
    requires 0 <= k <= s.len()
    ensures blen(s.take(k)) <= blen(s)
    decreases s.len() - k
{
    if k < s.len() {
        lemma_blen_take_le(s, k + 1);
        assert(s.take(k + 1).drop_last() =~= s.take(k));
    } else {
        assert(s.take(k) =~= s);
    }
}

} // verus!
fn main() {}
